package vapp

import (
	"crypto/sha256"
	"encoding/hex"
	"fmt"
	"os"
	"sort"
	"strings"
	"time"

	"github.com/tendermint/tendermint/crypto/ed25519"
	tmtypes "github.com/tendermint/tendermint/types"
)

// Scenario is an abstract history: a genesis and blocks of transaction requests.
type Scenario struct {
	ID      string      `json:"id"`
	Genesis GenesisSpec `json:"genesis"`
	Blocks  []SBlock    `json:"blocks"`
}

type SBlock struct {
	DT       int64    `json:"dt"`       // seconds since the previous block
	Proposer string   `json:"proposer"` // preferred proposer (used if it is in the set)
	Absent   []string `json:"absent"`   // validators whose last-commit vote is missing
	Byz      []Byz    `json:"byz"`
	Txs      []STx    `json:"txs"`
}

type STx struct {
	Req  TxReq  `json:"req"`
	Path string `json:"path"` // "honest": CheckTx first and include only when accepted; "direct": include regardless
}

// TxRecord is what happened to one request.
type TxRecord struct {
	Req      TxReq     `json:"req"`
	Path     string    `json:"path"`
	Signed   []string  `json:"signed"`
	FeePay   string    `json:"feePay"`
	Check    *TxResult `json:"check,omitempty"`
	Included bool      `json:"included"`
	Index    int       `json:"index"`
	Deliver  *TxResult `json:"deliver,omitempty"`
	Hash     string    `json:"hash"`
	B        *Built    `json:"-"` // the concrete transaction (reference run only)
}

type BlockRecord struct {
	H            int64            `json:"h"`
	Secs         int64            `json:"secs"` // block time in seconds since genesis
	Proposer     string           `json:"proposer"`
	Votes        []Vote           `json:"votes"`
	Byz          []Byz            `json:"byz"`
	Txs          []TxRecord       `json:"txs"`
	Results      []TxResult       `json:"results"`
	Updates      []NUpdate        `json:"updates"`
	UpdErr       string           `json:"updErr,omitempty"`
	Hash         string           `json:"hash"`
	Events       []Event          `json:"events"`
	Order        string           `json:"order"` // digest of the write order of the block
	NewKeys      int              `json:"newKeys"`
	State        *AbsState        `json:"state,omitempty"`
	Set          map[string]int64 `json:"set"` // validator set in effect at this height
	Next         map[string]int64 `json:"next"`
	witnessOrder []string         // the witness list in store order (for the wrapped-currency allowance) // Tendermint's next set, to which this block's updates are applied
}

// NUpdate is a validator update with the validator's model name.
type NUpdate struct {
	V     string `json:"v"`
	Power int64  `json:"power"`
}

type Transcript struct {
	Scenario  string        `json:"scenario"`
	Node      string        `json:"node"`
	InitVals  []NUpdate     `json:"initVals"`
	InitState *AbsState     `json:"initState,omitempty"`
	Blocks    []BlockRecord `json:"blocks"`
	Concrete  []BlockSpec   `json:"-"`
	Checked   [][][]byte    `json:"-"` // per block: the transactions the reference run sent to CheckTx before the block
	Dead      bool          `json:"dead"`
	DeadAt    string        `json:"deadAt,omitempty"`
	Exit      int           `json:"exit"`
}

// ValSets tracks Tendermint's validator sets with the real update rule.
type ValSets struct {
	g    *Genesis
	cur  *tmtypes.ValidatorSet // in effect at the next height to be executed
	next *tmtypes.ValidatorSet // in effect one height later
	byPK map[string]string
}

func NewValSets(g *Genesis) *ValSets {
	vs := &ValSets{g: g, byPK: map[string]string{}}
	var vals []*tmtypes.Validator
	for _, gv := range g.Doc.Validators {
		vals = append(vals, tmtypes.NewValidator(gv.PubKey, gv.Power))
	}
	vs.cur = tmtypes.NewValidatorSet(vals)
	vs.next = vs.cur.Copy()
	for n, v := range g.Validators {
		pk := v.Val.Priv.PubKey().(ed25519.PubKeyEd25519)
		vs.byPK[hex.EncodeToString(pk[:])] = n
	}
	return vs
}

func (vs *ValSets) nameByAddr(addr []byte) string {
	for n, v := range vs.g.Validators {
		if string(v.Val.Priv.PubKey().Address()) == string(addr) {
			return n
		}
	}
	return "x:" + hex.EncodeToString(addr)
}

// Members returns name -> power of the set in effect now.
func (vs *ValSets) Members() map[string]int64 {
	m := map[string]int64{}
	for _, v := range vs.cur.Validators {
		m[vs.nameByAddr(v.Address)] = v.VotingPower
	}
	return m
}

// NextMembers returns name -> power of the set that takes effect at the next height.
func (vs *ValSets) NextMembers() map[string]int64 {
	m := map[string]int64{}
	for _, v := range vs.next.Validators {
		m[vs.nameByAddr(v.Address)] = v.VotingPower
	}
	return m
}

// Apply applies the updates returned by EndBlock(h): they take effect at h+2.
func (vs *ValSets) Apply(us []Update) ([]NUpdate, error) {
	var named []NUpdate
	var changes []*tmtypes.Validator
	for _, u := range us {
		pkb, _ := hex.DecodeString(u.PubKey)
		n, ok := vs.byPK[u.PubKey]
		if !ok {
			n = "x:" + u.PubKey
		}
		named = append(named, NUpdate{V: n, Power: u.Power})
		var pk ed25519.PubKeyEd25519
		copy(pk[:], pkb)
		changes = append(changes, tmtypes.NewValidator(pk, u.Power))
	}
	nn := vs.next.Copy()
	err := nn.UpdateWithChangeSet(changes)
	vs.cur = vs.next
	if err == nil {
		vs.next = nn
	}
	return named, err
}

// RunOpts selects the replica and the variations of a run.
type RunOpts struct {
	Dir                   string
	Identity              string
	WantState             bool
	ReinitWit             bool                       // recompute the witness flag after InitChain (models Prepare's race going the other way)
	ClearJobs             bool                       // empty the job store after every block (a witness that lost its jobs)
	Restart               map[int64]string           // height -> crash point ("begin", "deliver:<k>", "end", "commit"): the process dies there and is restarted
	Checks                map[int64]map[int][][]byte // height -> position -> CheckTx injections (see Cmd.Checks); position -1 = before BeginBlock
	NoCheck               bool                       // replay: do not issue the honest-path CheckTx calls
	Recent, Every, Cycles int64
	Skip                  func(h int64, i int) bool // replay: leave out transaction i of block h (C06 twins)
}

// Materialise runs the scenario on a reference replica: honest-path requests are checked
// first and included only when accepted.  It returns the transcript and the concrete blocks.
func Materialise(sc *Scenario, o RunOpts) (*Transcript, error) {
	g := BuildGenesis(sc.Genesis)
	return run(sc, g, nil, o)
}

// Replay executes concrete blocks (from a reference transcript) on another replica.
func Replay(sc *Scenario, ref *Transcript, o RunOpts) (*Transcript, error) {
	g := BuildGenesis(sc.Genesis)
	return run(sc, g, ref, o)
}

func digest(keys []string) string {
	h := sha256.New()
	for _, k := range keys {
		h.Write([]byte(k))
		h.Write([]byte{0})
	}
	return hex.EncodeToString(h.Sum(nil))[:16]
}

func run(sc *Scenario, g *Genesis, ref *Transcript, o RunOpts) (*Transcript, error) {
	if o.Dir == "" {
		d, err := os.MkdirTemp("", "vrun")
		if err != nil {
			return nil, err
		}
		defer os.RemoveAll(d)
		o.Dir = d
	}
	cfg := ReplicaConfig{Dir: o.Dir, Identity: o.Identity, Recent: o.Recent, Every: o.Every, Cycles: o.Cycles}
	p, _, err := StartProc(cfg, sc.Genesis)
	if err != nil {
		return nil, err
	}
	defer func() { p.Stop() }()
	tr := &Transcript{Scenario: sc.ID, Node: o.Identity}
	dead := func(at string) (*Transcript, error) {
		tr.Dead, tr.DeadAt, tr.Exit = true, at, p.Exit
		return tr, nil
	}
	rep := p.Call(&Cmd{Op: "initchain"})
	if !rep.Alive {
		return dead("initchain")
	}
	vs := NewValSets(g)
	for _, u := range rep.Updates {
		n := vs.byPK[u.PubKey]
		tr.InitVals = append(tr.InitVals, NUpdate{V: n, Power: u.Power})
	}
	if o.ReinitWit {
		p.Call(&Cmd{Op: "reinit_witness"})
	}
	if o.WantState {
		if r := p.Call(&Cmd{Op: "state"}); r.Alive {
			tr.InitState = r.State
		}
	}
	now := GenesisTime
	lastHash := []byte{}
	var lastSet map[string]int64
	nblocks := len(sc.Blocks)
	if ref != nil {
		nblocks = len(ref.Concrete)
	}
	for bi := 0; bi < nblocks; bi++ {
		h := int64(bi + 1)
		var b *BlockSpec
		br := BlockRecord{H: h}
		members := vs.Members()
		if ref != nil {
			cb := ref.Concrete[bi]
			b = &cb
			br = ref.Blocks[bi]
			br.State, br.Results, br.Updates, br.Events = nil, nil, nil, nil
			br.Txs = append([]TxRecord{}, ref.Blocks[bi].Txs...)
			if o.Skip != nil {
				nb := *b
				nb.Txs = nil
				for i, t := range b.Txs {
					if !o.Skip(h, i) {
						nb.Txs = append(nb.Txs, t)
					}
				}
				b = &nb
			}
		} else {
			sb := sc.Blocks[bi]
			dt := sb.DT
			if dt <= 0 {
				dt = 10
			}
			now = now.Add(time.Duration(dt) * time.Second)
			b = &BlockSpec{Height: h, Time: now, AppHash: lastHash, Byz: sb.Byz}
			// proposer: the preferred one if it is in the set, else the first member by name
			names := []string{}
			for n := range members {
				names = append(names, n)
			}
			sort.Strings(names)
			b.Proposer = sb.Proposer
			if _, ok := members[b.Proposer]; !ok && len(names) > 0 {
				b.Proposer = names[int(h)%len(names)]
			}
			if h > 1 {
				ln := []string{}
				for n := range lastSet {
					ln = append(ln, n)
				}
				sort.Strings(ln)
				for _, n := range ln {
					signed := true
					for _, a := range sb.Absent {
						if a == n {
							signed = false
						}
					}
					b.Votes = append(b.Votes, Vote{Validator: n, Power: lastSet[n], Signed: signed})
				}
			}
			var checked [][]byte
			for _, st := range sb.Txs {
				bt := g.Build(st.Req)
				rec := TxRecord{Req: st.Req, Path: st.Path, Signed: bt.Signed, FeePay: bt.FeePay, Index: -1, B: bt}
				rec.Req.Raw = nil
				hs := sha256.Sum256(bt.Bytes)
				rec.Hash = hex.EncodeToString(hs[:8])
				include := true
				if st.Path != "direct" {
					checked = append(checked, bt.Bytes)
					cr := p.Call(&Cmd{Op: "check", Tx: bt.Bytes})
					if !cr.Alive {
						br.Txs = append(br.Txs, rec)
						tr.Blocks = append(tr.Blocks, br)
						return dead(fmt.Sprintf("check h=%d %s", h, st.Req.Kind))
					}
					rec.Check = cr.Tx
					rec.Check.Log = shortLog(rec.Check.Log)
					include = cr.Tx.Code == 0
				}
				if include {
					rec.Included = true
					rec.Index = len(b.Txs)
					b.Txs = append(b.Txs, bt.Bytes)
				}
				br.Txs = append(br.Txs, rec)
			}
			br.Secs = int64(now.Sub(GenesisTime).Seconds())
			br.Proposer, br.Votes, br.Byz = b.Proposer, b.Votes, b.Byz
			tr.Concrete = append(tr.Concrete, *b)
			tr.Checked = append(tr.Checked, checked)
		}
		br.Set = members
		br.Next = vs.NextMembers()
		cmd := &Cmd{Op: "run_block", Block: b, WantState: o.WantState, WantOrder: true}
		if ref != nil && !o.NoCheck && bi < len(ref.Checked) {
			// the same mempool checks the reference run made, at the same point
			cmd.PreChecks = append(cmd.PreChecks, ref.Checked[bi]...)
		}
		if o.Checks != nil && o.Checks[h] != nil {
			cmd.Checks = map[int][][]byte{}
			for pos, txs := range o.Checks[h] {
				if pos < 0 {
					cmd.PreChecks = append(cmd.PreChecks, txs...)
				} else {
					cmd.Checks[pos] = txs
				}
			}
		}
		crash := ""
		if o.Restart != nil {
			crash = o.Restart[h]
		}
		if crash != "" && crash != "commit" {
			cmd.StopAfter = crash
		}
		rep = p.Call(cmd)
		if !rep.Alive {
			tr.Blocks = append(tr.Blocks, br)
			return dead(fmt.Sprintf("block h=%d", h))
		}
		if !rep.OK {
			return nil, fmt.Errorf("worker error at h=%d: %s", h, rep.Err)
		}
		if crash != "" {
			// the process dies here; a new incarnation re-opens the data directory, answers
			// Info, and the missing block is fed again
			p.Kill()
			np, orep, err := StartProc(cfg, sc.Genesis)
			if err != nil {
				return nil, fmt.Errorf("restart at h=%d: %v", h, err)
			}
			p = np
			want := h - 1
			if crash == "commit" {
				want = h
			}
			infoHash := orep.Hash
			br.Events = append(br.Events, Event{Type: "verif_restart", Attrs: map[string]string{
				"crash": crash, "info_height": fmt.Sprint(orep.Height), "info_hash": infoHash,
				"want_height": fmt.Sprint(want), "want_hash": hex.EncodeToString(lastHashFor(crash, lastHash, rep.Hash))}})
			if orep.Height == 0 {
				// nothing was ever committed: Tendermint's handshake sends InitChain again
				if r := p.Call(&Cmd{Op: "initchain"}); !r.Alive {
					tr.Blocks = append(tr.Blocks, br)
					return dead(fmt.Sprintf("initchain after restart at h=%d", h))
				}
				if o.ReinitWit {
					p.Call(&Cmd{Op: "reinit_witness"})
				}
			}
			// restore the node side: block store and transaction index hold the committed blocks
			for j := 0; j < bi; j++ {
				rb := tr.concreteOrRef(ref, j)
				p.Call(&Cmd{Op: "restore", Block: rb, Results: tr.Blocks[j].rawResults()})
			}
			if crash == "commit" {
				p.Call(&Cmd{Op: "restore", Block: b, Results: resultsOf(rep.Txs)})
			} else {
				cmd.StopAfter = ""
				cmd.PreChecks, cmd.Checks = nil, nil
				rep = p.Call(cmd)
				if !rep.Alive {
					tr.Blocks = append(tr.Blocks, br)
					return dead(fmt.Sprintf("block h=%d after restart", h))
				}
			}
		}
		br.Results = rep.Txs
		for i := range br.Results {
			br.Results[i].Log = shortLog(br.Results[i].Log)
		}
		if o.Skip == nil {
			for i := range br.Txs {
				if br.Txs[i].Included && br.Txs[i].Index < len(rep.Txs) {
					r := rep.Txs[br.Txs[i].Index]
					r.Log = shortLog(r.Log)
					br.Txs[i].Deliver = &r
				}
			}
		}
		br.Hash = rep.Hash
		br.Events = append(br.Events, rep.Events...)
		br.Order = digest(rep.Order)
		br.NewKeys = len(rep.Order)
		br.State = rep.State
		named, uerr := vs.Apply(rep.Updates)
		br.Updates = named
		if uerr != nil {
			br.UpdErr = uerr.Error()
		}
		lastSet = members
		lastHash, _ = hex.DecodeString(rep.Hash)
		tr.Blocks = append(tr.Blocks, br)
		if o.ClearJobs {
			p.Call(&Cmd{Op: "clear_jobs"})
		}
	}
	return tr, nil
}

func lastHashFor(crash string, prev []byte, cur string) []byte {
	if crash == "commit" {
		b, _ := hex.DecodeString(cur)
		return b
	}
	return prev
}

func (tr *Transcript) concreteOrRef(ref *Transcript, j int) *BlockSpec {
	if ref != nil {
		return &ref.Concrete[j]
	}
	return &tr.Concrete[j]
}

func (br *BlockRecord) rawResults() []TxResult { return br.Results }

func resultsOf(r []TxResult) []TxResult { return r }

func shortLog(s string) string {
	s = strings.ReplaceAll(s, "\n", " ")
	if len(s) > 160 {
		s = s[:160]
	}
	return s
}
