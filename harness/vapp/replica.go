package vapp

import (
	"encoding/json"
	"fmt"
	"github.com/tendermint/tendermint/crypto/tmhash"
	"io/ioutil"
	"os"
	"path/filepath"
	"time"

	abci "github.com/tendermint/tendermint/abci/types"
	"github.com/tendermint/tendermint/crypto/ed25519"
	"github.com/tendermint/tendermint/privval"
	tmrpccore "github.com/tendermint/tendermint/rpc/core"
	"github.com/tendermint/tendermint/state/txindex"
	"github.com/tendermint/tendermint/state/txindex/kv"
	"github.com/tendermint/tendermint/store"
	tmtypes "github.com/tendermint/tendermint/types"
	tmdb "github.com/tendermint/tm-db"

	"github.com/Oneledger/protocol/app"
	"github.com/Oneledger/protocol/app/node"
	"github.com/Oneledger/protocol/config"
)

// ReplicaConfig describes one incarnation of one node.
type ReplicaConfig struct {
	Dir      string `json:"dir"`      // root directory (config.toml, consensus/, nodedata/)
	Identity string `json:"identity"` // validator identity name whose keys this node holds ("v1", or any other name for a non-validator)
	Recent   int64  `json:"recent"`
	Every    int64  `json:"every"`
	Cycles   int64  `json:"cycles"`
	LogLevel int    `json:"log_level"`
}

// Replica wraps app.App with the pieces of a node the application reads: a block store
// and the transaction index.
type Replica struct {
	Cfg     ReplicaConfig
	G       *Genesis
	App     *app.App
	Blocks  *store.BlockStore
	Indexer txindex.TxIndexer
	ID      *ValidatorID
}

func writeKeyFiles(dir string, id *ValidatorID) error {
	cdir := filepath.Join(dir, "consensus", "config")
	ddir := filepath.Join(dir, "consensus", "data")
	for _, d := range []string{cdir, ddir, filepath.Join(dir, "nodedata")} {
		if err := os.MkdirAll(d, 0755); err != nil {
			return err
		}
	}
	kf := filepath.Join(cdir, "priv_validator_key.json")
	sf := filepath.Join(ddir, "priv_validator_state.json")
	if _, err := os.Stat(kf); err != nil {
		pv := privval.GenFilePV(kf, sf)
		pv.Key.PrivKey = ed25519.PrivKeyEd25519(id.Val.Priv)
		pv.Key.PubKey = id.Val.Priv.PubKey()
		pv.Key.Address = pv.Key.PubKey.Address()
		pv.Save()
	}
	// deliberately no node_key.json: app.Prepare stops there (see app/verif_app.go)
	return nil
}

// OpenReplica creates or re-opens the application over cfg.Dir.
func OpenReplica(cfg ReplicaConfig, g *Genesis) (*Replica, error) {
	id, ok := g.Validators[cfg.Identity]
	if !ok {
		id = NewValidatorID(cfg.Identity) // a node that is not a validator of this chain
	}
	if err := writeKeyFiles(cfg.Dir, id); err != nil {
		return nil, err
	}
	scfg := config.DefaultServerConfig()
	scfg.Node.NodeName = cfg.Identity
	scfg.Node.DB = "goleveldb"
	scfg.Node.LogLevel = cfg.LogLevel
	scfg.Node.ChainStateRotation = config.ChainStateRotationCfg{Recent: cfg.Recent, Every: cfg.Every, Cycles: cfg.Cycles}
	cfile := filepath.Join(cfg.Dir, config.FileName)
	if err := scfg.SaveFile(cfile); err != nil {
		return nil, err
	}
	if err := scfg.ReadFile(cfile); err != nil {
		return nil, err
	}
	nk, vk, ek := id.PrivKeys()
	nctx := node.NewVerifContext(cfg.Identity, nk, vk, ek)
	r := &Replica{Cfg: cfg, G: g, ID: id}
	r.Blocks = store.NewBlockStore(tmdb.NewMemDB())
	r.Indexer = kv.NewTxIndex(tmdb.NewMemDB())
	tmrpccore.SetTxIndexer(r.Indexer)
	a, err := app.NewVerif(scfg, nctx, g.Doc, r.Blocks)
	if err != nil {
		return nil, err
	}
	r.App = a
	return r, nil
}

func (r *Replica) InitChain() abci.ResponseInitChain {
	vals := []abci.ValidatorUpdate{}
	for _, gv := range r.G.Doc.Validators {
		vals = append(vals, tmtypes.TM2PB.ValidatorUpdate(tmtypes.NewValidator(gv.PubKey, gv.Power)))
	}
	return r.App.ABCI().InitChain(abci.RequestInitChain{
		Time: r.G.Doc.GenesisTime, ChainId: r.G.Doc.ChainID, Validators: vals,
		AppStateBytes:   r.G.Doc.AppState,
		ConsensusParams: tmtypes.TM2PB.ConsensusParams(r.G.Doc.ConsensusParams),
	})
}

// BlockSpec is what a block consists of, from the application's point of view.
type BlockSpec struct {
	Height   int64     `json:"h"`
	Time     time.Time `json:"time"`
	Proposer string    `json:"proposer"` // validator name
	Votes    []Vote    `json:"votes"`    // last commit
	Byz      []Byz     `json:"byz"`
	Txs      [][]byte  `json:"txs"`
	AppHash  []byte    `json:"app_hash"` // previous commit's hash (header field)
}

type Vote struct {
	Validator string `json:"v"`
	Power     int64  `json:"power"`
	Signed    bool   `json:"signed"`
}

type Byz struct {
	Validator string `json:"v"`
	Height    int64  `json:"h"`
	Power     int64  `json:"power"`
}

// SaveBlock stores the block meta in the block store as Tendermint does before BeginBlock,
// and returns the block hash that goes into RequestBeginBlock.
func (r *Replica) SaveBlock(b *BlockSpec) []byte {
	txs := make([]tmtypes.Tx, len(b.Txs))
	for i, t := range b.Txs {
		txs[i] = t
	}
	var lastID tmtypes.BlockID
	if b.Height > 1 {
		if m := r.Blocks.LoadBlockMeta(b.Height - 1); m != nil {
			lastID = m.BlockID
		}
	}
	lastCommit := tmtypes.NewCommit(b.Height-1, 0, lastID, nil)
	blk := tmtypes.MakeBlock(b.Height, txs, lastCommit, nil)
	blk.Header.ChainID = r.G.Doc.ChainID
	blk.Header.Time = b.Time
	blk.Header.LastBlockID = lastID
	blk.Header.AppHash = b.AppHash
	// Tendermint's Header.Hash() is nil without a validators hash; the harness does not track the
	// set's merkle root, any fixed non-empty value gives every replica the same block hashes
	blk.Header.ValidatorsHash = tmhash.Sum([]byte("verif/validators"))
	if v, ok := r.G.Validators[b.Proposer]; ok {
		blk.Header.ProposerAddress = v.Val.Priv.PubKey().Address()
	}
	ps := blk.MakePartSet(65536)
	seen := tmtypes.NewCommit(b.Height, 0, tmtypes.BlockID{Hash: blk.Hash(), PartsHeader: ps.Header()}, nil)
	if r.Blocks.Height() < b.Height {
		r.Blocks.SaveBlock(blk, ps, seen)
	}
	return blk.Hash()
}

func (r *Replica) header(b *BlockSpec) abci.Header {
	h := abci.Header{ChainID: r.G.Doc.ChainID, Height: b.Height, Time: b.Time, AppHash: b.AppHash}
	if v, ok := r.G.Validators[b.Proposer]; ok {
		h.ProposerAddress = v.Val.Priv.PubKey().Address()
	}
	return h
}

func (r *Replica) BeginBlock(b *BlockSpec, hash []byte) abci.ResponseBeginBlock {
	req := abci.RequestBeginBlock{Hash: hash, Header: r.header(b)}
	for _, v := range b.Votes {
		id := r.G.Validators[v.Validator]
		req.LastCommitInfo.Votes = append(req.LastCommitInfo.Votes, abci.VoteInfo{
			Validator: abci.Validator{Address: id.Val.Priv.PubKey().Address(), Power: v.Power}, SignedLastBlock: v.Signed})
	}
	for _, z := range b.Byz {
		id := r.G.Validators[z.Validator]
		req.ByzantineValidators = append(req.ByzantineValidators, abci.Evidence{
			Type: "duplicate/vote", Validator: abci.Validator{Address: id.Val.Priv.PubKey().Address(), Power: z.Power},
			Height: z.Height, Time: b.Time, TotalVotingPower: 0})
	}
	return r.App.ABCI().BeginBlock(req)
}

func (r *Replica) CheckTx(tx []byte) abci.ResponseCheckTx {
	return r.App.ABCI().CheckTx(abci.RequestCheckTx{Tx: tx})
}

func (r *Replica) DeliverTx(tx []byte) abci.ResponseDeliverTx {
	return r.App.ABCI().DeliverTx(abci.RequestDeliverTx{Tx: tx})
}

func (r *Replica) EndBlock(h int64) abci.ResponseEndBlock {
	return r.App.ABCI().EndBlock(abci.RequestEndBlock{Height: h})
}

func (r *Replica) Commit() abci.ResponseCommit { return r.App.ABCI().Commit() }

func (r *Replica) Info() abci.ResponseInfo { return r.App.ABCI().Info(abci.RequestInfo{}) }

// IndexBlock feeds the transaction index the way a node does after a block is committed.
func (r *Replica) IndexBlock(h int64, txs [][]byte, results []abci.ResponseDeliverTx) {
	b := txindex.NewBatch(int64(len(txs)))
	for i, t := range txs {
		_ = b.Add(&tmtypes.TxResult{Height: h, Index: uint32(i), Tx: t, Result: results[i]})
	}
	if err := r.Indexer.AddBatch(b); err != nil {
		panic(err)
	}
}

type KV struct {
	K []byte
	V []byte
}

// Dump returns the whole working tree in key order.
func (r *Replica) Dump() []KV {
	var out []KV
	r.App.VerifIterate(func(k, v []byte) bool {
		out = append(out, KV{append([]byte{}, k...), append([]byte{}, v...)})
		return false
	})
	return out
}

// OverlayKeys returns the ordered keys of the deliver block cache (the write order of the
// block that is about to be committed).
func (r *Replica) OverlayKeys() []string {
	var out []string
	r.App.VerifOverlay(func(k, v []byte) bool {
		out = append(out, string(k))
		return false
	})
	return out
}

func SaveJSON(path string, v interface{}) error {
	b, err := json.MarshalIndent(v, "", " ")
	if err != nil {
		return err
	}
	return ioutil.WriteFile(path, b, 0644)
}

func must(err error) {
	if err != nil {
		panic(fmt.Sprint(err))
	}
}
