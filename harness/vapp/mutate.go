package vapp

import (
	"bytes"
	"encoding/json"
	"fmt"
	"strings"

	"github.com/Oneledger/protocol/action"
	"github.com/Oneledger/protocol/data/balance"
	"github.com/Oneledger/protocol/data/keys"
	"github.com/Oneledger/protocol/serialize"
)

// Mutations of a well-formed signed transaction (property C04).  Each returns the mutated
// bytes, or nil when the mutation does not apply to this transaction.
var Mutations = []string{
	"payload", "feePrice", "feeGas", "feeCurrency", "memo", "type", "substKey", "flipSig", "dropSigner",
	"addSigner", "swapSigners", "changeAlg", "resignOtherKey", "unsigned", "dupCoSigner", "algBtcec", "algEthsecp",
}

func reserialize(st action.SignedTx) []byte {
	out, err := serialize.GetSerializer(serialize.NETWORK).Serialize(st)
	must(err)
	return out
}

func decodeSigned(b []byte) action.SignedTx {
	var st action.SignedTx
	must(serialize.GetSerializer(serialize.NETWORK).Deserialize(b, &st))
	return st
}

// Mutate applies mutation m at signer position pos (where it matters); other is an account
// that is not a required signer.
func (g *Genesis) Mutate(bt *Built, m string, pos int, other *Account) []byte {
	st := decodeSigned(bt.Bytes)
	if len(st.Signatures) == 0 {
		return nil
	}
	if pos >= len(st.Signatures) {
		pos = len(st.Signatures) - 1
	}
	switch m {
	case "payload":
		// change one character of the payload that keeps it well-formed: a digit of a number or
		// a hex digit of an address
		d := []byte(st.Data)
		changed := false
		for i := len(d) - 1; i >= 0 && !changed; i-- {
			if d[i] >= '0' && d[i] <= '8' {
				d[i]++
				changed = true
			}
		}
		if !changed {
			return nil
		}
		st.Data = d
	case "feePrice":
		st.Fee.Price.Value = *balance.NewAmountFromInt(st.Fee.Price.Value.BigInt().Int64() + 1)
	case "feeGas":
		st.Fee.Gas += 1000
	case "feeCurrency":
		st.Fee.Price.Currency = "VT"
	case "memo":
		st.Memo = st.Memo + "x"
	case "type":
		if st.Type == action.SEND {
			st.Type = action.SENDPOOL
		} else {
			st.Type = action.SEND
		}
	case "substKey":
		if st.Type == action.OLVM {
			return nil // the signer of an OLVM transaction is recovered from the signature; the carried key takes no part in it
		}
		st.Signatures[pos].Signer = other.Pub
	case "flipSig":
		sg := append([]byte{}, st.Signatures[pos].Signed...)
		sg[len(sg)/2] ^= 0x01
		st.Signatures[pos].Signed = sg
	case "dropSigner":
		st.Signatures = st.Signatures[:len(st.Signatures)-1]
	case "addSigner":
		st.Signatures = append(st.Signatures, action.Signature{Signer: other.Pub, Signed: other.Sign(st.RawTx.RawBytes())})
	case "swapSigners":
		if len(st.Signatures) < 2 {
			return nil
		}
		st.Signatures[0], st.Signatures[1] = st.Signatures[1], st.Signatures[0]
	case "changeAlg":
		if st.Type == action.OLVM {
			return nil // see substKey
		}
		pk := st.Signatures[pos].Signer
		if pk.KeyType == keys.ED25519 {
			pk.KeyType = keys.SECP256K1
		} else {
			pk.KeyType = keys.ED25519
		}
		st.Signatures[pos].Signer = pk
	case "algBtcec", "algEthsecp":
		// the same key bytes under one of the chain's other public-key types
		if st.Type == action.OLVM {
			return nil // see substKey
		}
		pk := st.Signatures[pos].Signer
		pk.KeyType = map[string]keys.Algorithm{"algBtcec": keys.BTCECSECP, "algEthsecp": keys.ETHSECP}[m]
		st.Signatures[pos].Signer = pk
	case "resignOtherKey":
		st.Signatures[pos] = action.Signature{Signer: other.Pub, Signed: other.Sign(st.RawTx.RawBytes())}
	case "unsigned":
		st.Signatures = []action.Signature{}
	case "dupCoSigner":
		// the slot carries a copy of a co-signer's key and signature
		if len(st.Signatures) < 2 {
			return nil
		}
		st.Signatures[pos] = st.Signatures[1-pos]
	default:
		panic("unknown mutation " + m)
	}
	out := reserialize(st)
	if bytes.Equal(out, bt.Bytes) {
		return nil
	}
	return out
}

// Encodings of the same signed content (property C05): different bytes that parse to the
// same transaction.
var Encodings = []string{"identical", "whitespace", "keyOrder", "extraField", "duplicateKey", "keyCase", "extraSignature", "junkSignatureField", "innerWhitespace", "innerExtraField"}

func Reencode(b []byte, enc string) []byte {
	switch enc {
	case "identical":
		return b
	case "whitespace":
		var buf bytes.Buffer
		if err := json.Indent(&buf, b, "", " "); err != nil {
			return nil
		}
		return buf.Bytes()
	case "keyOrder":
		var m map[string]json.RawMessage
		if err := json.Unmarshal(b, &m); err != nil {
			return nil
		}
		// reverse alphabetical order of the top-level keys
		ks := []string{}
		for k := range m {
			ks = append(ks, k)
		}
		for i := 0; i < len(ks); i++ {
			for j := i + 1; j < len(ks); j++ {
				if ks[j] > ks[i] {
					ks[i], ks[j] = ks[j], ks[i]
				}
			}
		}
		var parts []string
		for _, k := range ks {
			parts = append(parts, fmt.Sprintf("%q:%s", k, m[k]))
		}
		return []byte("{" + strings.Join(parts, ",") + "}")
	case "extraField":
		if len(b) < 2 || b[len(b)-1] != '}' {
			return nil
		}
		return append(append([]byte{}, b[:len(b)-1]...), []byte(`,"zzz_unknown":1}`)...)
	case "duplicateKey":
		// the memo appears twice; the last occurrence wins and is the signed one
		var m map[string]json.RawMessage
		if err := json.Unmarshal(b, &m); err != nil || m["memo"] == nil {
			return nil
		}
		return append([]byte(`{"memo":"other",`), b[1:]...)
	case "keyCase":
		s := string(b)
		if !strings.Contains(s, `"memo"`) {
			return nil
		}
		return []byte(strings.Replace(s, `"memo"`, `"MEMO"`, 1))
	case "extraSignature":
		// altered unsigned part: one more entry in the signature list, canonical encoding
		st := decodeSigned(b)
		if len(st.Signatures) == 0 {
			return nil
		}
		st.Signatures = append(st.Signatures, st.Signatures[0])
		return reserialize(st)
	case "innerWhitespace", "innerExtraField":
		// the payload (the "data" bytes) is JSON itself: another encoding of it inside a canonically encoded envelope.
		// For native kinds the signature is over these bytes and breaks; an OLVM signature is over the fields.
		st := decodeSigned(b)
		var buf bytes.Buffer
		if enc == "innerWhitespace" {
			if err := json.Indent(&buf, st.Data, "", " "); err != nil {
				return nil
			}
		} else {
			if len(st.Data) < 2 || st.Data[len(st.Data)-1] != '}' {
				return nil
			}
			buf.Write(st.Data[:len(st.Data)-1])
			buf.WriteString(`,"zzz_unknown":1}`)
		}
		st.Data = buf.Bytes()
		return reserialize(st)
	case "junkSignatureField":
		// altered unsigned part: the signature list is unchanged in content but one signature
		// carries trailing bytes
		st := decodeSigned(b)
		if len(st.Signatures) == 0 {
			return nil
		}
		last := len(st.Signatures) - 1
		st.Signatures[last].Signed = append(append([]byte{}, st.Signatures[last].Signed...), 0)
		return reserialize(st)
	}
	panic("unknown encoding " + enc)
}
