// Package vapp drives the OneLedger ABCI application of /repo in-process, without a
// Tendermint node: deterministic identities, genesis documents, signed transactions,
// blocks, a replica wrapper around app.App and the projection of the committed tree onto
// the variables of the TLA+ specifications.
package vapp

import (
	"crypto/sha256"
	"encoding/hex"

	"github.com/Oneledger/protocol/data/keys"
	"github.com/tendermint/tendermint/crypto/ed25519"
	"github.com/tendermint/tendermint/crypto/secp256k1"
)

// Account is an externally owned account with a deterministic key: ed25519, or secp256k1 for
// the accounts named in SecpAccounts (the chain accepts both, and two more public-key types).
type Account struct {
	Name string
	Priv ed25519.PrivKeyEd25519
	Secp *secp256k1.PrivKeySecp256k1
	Pub  keys.PublicKey
	Addr keys.Address
}

// SecpAccounts holds the model names of the accounts that sign with a secp256k1 key.
var SecpAccounts = map[string]bool{"a3": true}

func secret(domain, name string) []byte {
	h := sha256.Sum256([]byte("verif/" + domain + "/" + name))
	return h[:]
}

func NewAccount(name string) *Account {
	if SecpAccounts[name] {
		sk := secp256k1.GenPrivKeySecp256k1(secret("acct", name))
		pub := sk.PubKey().(secp256k1.PubKeySecp256k1)
		pk := keys.PublicKey{KeyType: keys.SECP256K1, Data: pub[:]}
		h, err := pk.GetHandler()
		if err != nil {
			panic(err)
		}
		return &Account{Name: name, Secp: &sk, Pub: pk, Addr: h.Address()}
	}
	priv := ed25519.GenPrivKeyFromSecret(secret("acct", name))
	pub := priv.PubKey().(ed25519.PubKeyEd25519)
	pk := keys.PublicKey{KeyType: keys.ED25519, Data: pub[:]}
	h, err := pk.GetHandler()
	if err != nil {
		panic(err)
	}
	return &Account{Name: name, Priv: priv, Pub: pk, Addr: h.Address()}
}

func (a *Account) Sign(msg []byte) []byte {
	if a.Secp != nil {
		s, err := a.Secp.Sign(msg)
		if err != nil {
			panic(err)
		}
		return s
	}
	s, err := a.Priv.Sign(msg)
	if err != nil {
		panic(err)
	}
	return s
}

// Validator identity: consensus key, node key, ECDSA key (ethereum witness key) and the
// stake account that funds it.
type ValidatorID struct {
	Name    string
	Val     *Account // consensus (validator) key; Addr is the validator address
	Node    *Account // node key
	Ecdsa   secp256k1.PrivKeySecp256k1
	EcdsaPK keys.PublicKey
	Stake   *Account // stake account
}

func NewValidatorID(name string) *ValidatorID {
	v := &ValidatorID{Name: name}
	v.Val = NewAccount("val/" + name)
	v.Val.Name = name
	v.Node = NewAccount("node/" + name)
	v.Stake = NewAccount("stake/" + name)
	v.Stake.Name = "s" + name
	v.Ecdsa = secp256k1.GenPrivKeySecp256k1(secret("ecdsa", name))
	pub := v.Ecdsa.PubKey().(secp256k1.PubKeySecp256k1)
	v.EcdsaPK = keys.PublicKey{KeyType: keys.SECP256K1, Data: pub[:]}
	return v
}

func (v *ValidatorID) PrivKeys() (nodeKey, valKey, ecdsaKey keys.PrivateKey) {
	nodeKey, _ = keys.GetPrivateKeyFromBytes(v.Node.Priv[:], keys.ED25519)
	valKey, _ = keys.GetPrivateKeyFromBytes(v.Val.Priv[:], keys.ED25519)
	ecdsaKey, _ = keys.GetPrivateKeyFromBytes(v.Ecdsa[:], keys.SECP256K1)
	return
}

func Hex(b []byte) string { return hex.EncodeToString(b) }
