package vapp

import (
	"encoding/json"
	"fmt"
	"math/big"
	"sort"
	"strconv"
	"strings"
	"sync"
)

// argInt returns a request argument as a small integer; ok=false when it is not one
// (adversarial magnitudes): such an accepted transaction cannot be described to TLC.
func argInt(t TxReq, k string) (int64, bool) {
	switch v := t.A[k].(type) {
	case int:
		return int64(v), true
	case int64:
		return v, v < Lim && v > -Lim
	case float64:
		return int64(v), v < float64(Lim) && v > -float64(Lim)
	case string:
		b, ok := new(big.Int).SetString(v, 10)
		if !ok || !b.IsInt64() || b.Int64() >= Lim || b.Int64() <= -Lim {
			return 0, false
		}
		return b.Int64(), true
	}
	return 0, false
}

func accepted(t TxRecord) bool { return t.Included && t.Deliver != nil && t.Deliver.Code == 0 }

func sortedKeys(m map[string]bool) []string {
	out := []string{}
	for k := range m {
		out = append(out, k)
	}
	sort.Strings(out)
	return out
}

func optInt(s *AbsState, opt, field string) int64 {
	raw, ok := s.Opts[opt]
	if !ok {
		return -1
	}
	var m map[string]interface{}
	if err := jsonUnmarshal(raw, &m); err != nil {
		return -1
	}
	switch v := m[field].(type) {
	case float64:
		return int64(v)
	case string:
		var n int64
		fmt.Sscan(v, &n)
		return n
	}
	return -1
}

// ---------------------------------------------------------------------------------
// Staking_Trace events (C11)

type StakeTx struct {
	K string `json:"k"`
	V string `json:"v"`
	D string `json:"d"`
	A int64  `json:"a"`
}

type StakeState struct {
	Eff    map[string]map[string]int64 `json:"eff"`
	Tot    map[string]int64            `json:"tot"`
	Mat    map[string]map[string]int64 `json:"mat"`
	Bnd    map[string]int64            `json:"bnd"`
	Frozen []string                    `json:"frozen"`
}

type VD struct {
	V string `json:"v"`
	D string `json:"d"`
}

type StakingEvent struct {
	T          int              `json:"t"`
	Ev         string           `json:"ev"`
	H          int64            `json:"h"`
	Maturity   int64            `json:"maturity"`
	Txs        []StakeTx        `json:"txs"`
	Guilty     []VD             `json:"guilty"`
	S          StakeState       `json:"s"`
	ValStaking map[string]int64 `json:"valStaking"`
	Delayed    []string         `json:"delayed"`
	Bad        []string         `json:"bad"`
}

func stakeState(s *AbsState) StakeState {
	fr := map[string]bool{}
	for v, f := range s.Frozen {
		if f.IsFrozen {
			fr[v] = true
		}
	}
	return StakeState{Eff: s.StakeEff, Tot: s.StakeTot, Mat: s.Maturing, Bnd: s.Bounded, Frozen: sortedKeys(fr)}
}

func StakingEvents(t int, sc *Scenario, tr *Transcript) []StakingEvent {
	if tr.InitState == nil {
		return nil
	}
	evs := []StakingEvent{{T: t, Ev: "Init", S: stakeState(tr.InitState), Txs: []StakeTx{}, Guilty: []VD{}, ValStaking: map[string]int64{}, Delayed: []string{}, Bad: []string{}}}
	prev := tr.InitState
	for _, b := range tr.Blocks {
		if b.State == nil {
			break
		}
		e := StakingEvent{T: t, Ev: "Block", H: b.H, Maturity: optInt(prev, "stakingopt", "maturityTime"), S: stakeState(b.State),
			Txs: []StakeTx{}, Guilty: []VD{}, ValStaking: map[string]int64{}, Delayed: []string{}, Bad: []string{}}
		for _, tx := range b.Txs {
			if !accepted(tx) {
				continue
			}
			switch tx.Req.Kind {
			case "STAKE", "UNSTAKE", "WITHDRAW":
				a, ok := argInt(tx.Req, "amt")
				if !ok {
					e.Bad = append(e.Bad, tx.Req.Kind+":accepted-with-unrepresentable-amount")
				}
				e.Txs = append(e.Txs, StakeTx{K: tx.Req.Kind, V: tx.Req.S("v"), D: tx.Req.S("d"), A: a})
			case "RELEASE":
				e.Txs = append(e.Txs, StakeTx{K: "RELEASE", V: tx.Req.S("v")})
			}
		}
		for v, f := range b.State.Frozen {
			if f.Height == b.H && f.Status == FrozenByzantine {
				if vr, ok := prev.Vals[v]; ok {
					e.Guilty = append(e.Guilty, VD{V: v, D: vr.Stake})
				}
			}
		}
		sort.Slice(e.Guilty, func(i, j int) bool { return e.Guilty[i].V < e.Guilty[j].V })
		for v, r := range b.State.Vals {
			e.ValStaking[v] = r.Staking
		}
		dl := map[string]bool{}
		for _, m := range b.State.Delayed {
			for v := range m {
				dl[v] = true
			}
		}
		for _, g := range e.Guilty {
			dl[g.V] = true
		}
		e.Delayed = sortedKeys(dl)
		evs = append(evs, e)
		prev = b.State
	}
	return evs
}

// ---------------------------------------------------------------------------------
// NetDelegation_Trace events (C12)

type DelegTx struct {
	K     string `json:"k"`
	D     string `json:"d"`
	To    string `json:"to"`
	A     int64  `json:"a"`
	Fee   int64  `json:"fee"`
	Payer string `json:"payer"`
}

type DelegState struct {
	Act   map[string]int64            `json:"act"`
	Pend  map[string]map[string]int64 `json:"pend"`
	Claim map[string]int64            `json:"claim"`
	CPend map[string]map[string]int64 `json:"cpend"`
	Bal   map[string]int64            `json:"bal"`
}

type DelegEvent struct {
	T        int        `json:"t"`
	Ev       string     `json:"ev"`
	H        int64      `json:"h"`
	Maturity int64      `json:"maturity"`
	Allow    int64      `json:"allow"`
	Txs      []DelegTx  `json:"txs"`
	S        DelegState `json:"s"`
	Other    []string   `json:"other"` // accepted transactions of kinds the specification does not know
}

func delegState(s *AbsState) DelegState {
	bal := map[string]int64{}
	for o, m := range s.Bal {
		if v, ok := m["OLT"]; ok {
			bal[o] = v
		}
	}
	return DelegState{Act: s.DelegAct, Pend: s.DelegPend, Claim: s.DelegRw, CPend: s.DelegRwP, Bal: bal}
}

var poolOwner = map[string]string{
	"DelegationPool": "pool:delegation", "RewardsPool": "pool:" + RewardPoolAddr, "BountyPool": "pool:" + BountyAddr, "FeePool": "pool:fee",
}

func feeOf(tx TxRecord) int64 {
	price := tx.Req.Price
	if price == 0 {
		price = 1
	}
	return tx.Deliver.GasUsed * price
}

func DelegEvents(t int, sc *Scenario, tr *Transcript) []DelegEvent {
	if tr.InitState == nil {
		return nil
	}
	evs := []DelegEvent{{T: t, Ev: "Init", S: delegState(tr.InitState), Txs: []DelegTx{}, Other: []string{}}}
	prev := tr.InitState
	for _, b := range tr.Blocks {
		if b.State == nil {
			break
		}
		e := DelegEvent{T: t, Ev: "Block", H: b.H, Maturity: optInt(prev, "networkdelegopt", "rewardsMaturityTime"), S: delegState(b.State), Txs: []DelegTx{}, Other: []string{}}
		for _, ev := range b.Events {
			if ev.Type == "block_rewards" {
				if v, ok := ev.Attrs["0lt"+Hex([]byte(DelegationPoolKey))]; ok {
					fmt.Sscan(v, &e.Allow)
				}
			}
		}
		for _, tx := range b.Txs {
			if !accepted(tx) {
				continue
			}
			a, ok := argInt(tx.Req, "amt")
			d := DelegTx{A: a, Fee: feeOf(tx), Payer: tx.FeePay}
			switch tx.Req.Kind {
			case "DELEGATE", "UNDELEGATE", "DELEG_WITHDRAW", "DELEG_REINVEST":
				d.K, d.D = tx.Req.Kind, tx.Req.S("d")
			case "SEND":
				d.K, d.D, d.To = "SEND", tx.Req.S("from"), tx.Req.S("to")
			case "SENDPOOL":
				d.K, d.D, d.To = "SEND", tx.Req.S("from"), poolOwner[tx.Req.S("pool")]
			default:
				e.Other = append(e.Other, tx.Req.Kind)
				continue
			}
			if !ok {
				e.Other = append(e.Other, tx.Req.Kind+":unrepresentable-amount")
			}
			e.Txs = append(e.Txs, d)
		}
		evs = append(evs, e)
		prev = b.State
	}
	return evs
}

// ---------------------------------------------------------------------------------
// Validators_Trace events (C10)

type ValEvent struct {
	T      int              `json:"t"`
	Ev     string           `json:"ev"`
	H      int64            `json:"h"`
	Rec    map[string]int64 `json:"rec"`   // validator -> power in the previous block's records
	Stake  map[string]int64 `json:"stake"` // validator -> own stake in the previous block's records
	Bad    []string         `json:"bad"`   // frozen in the previous block's records, or frozen at this block's beginning
	Top    int64            `json:"top"`
	Min    int64            `json:"min"`
	Upd    map[string]int64 `json:"upd"`
	Dup    bool             `json:"dup"` // the update list named a validator twice
	UpdErr string           `json:"updErr"`
	Cur    map[string]int64 `json:"cur"`
	Nxt    map[string]int64 `json:"nxt"`
}

func ValEvents(t int, sc *Scenario, tr *Transcript) []ValEvent {
	if tr.InitState == nil {
		return nil
	}
	var evs []ValEvent
	prev := tr.InitState
	for _, b := range tr.Blocks {
		if b.State == nil {
			break
		}
		e := ValEvent{T: t, Ev: "Block", H: b.H, Rec: map[string]int64{}, Stake: map[string]int64{}, Upd: map[string]int64{}, UpdErr: b.UpdErr,
			Cur: b.Set, Nxt: b.Next, Top: optInt(prev, "stakingopt", "topValidatorCount"), Min: optInt(prev, "stakingopt", "minSelfDelegationAmount")}
		for v, r := range prev.Vals {
			e.Rec[v] = r.Power
			e.Stake[v] = Get2(prev.StakeEff, v, r.Stake)
		}
		bad := map[string]bool{}
		for v, f := range prev.Frozen {
			if f.IsFrozen {
				bad[v] = true
			}
		}
		for v, f := range b.State.Frozen {
			if f.IsFrozen && f.Height == b.H && f.Status == 1 { // MISSED_REQUIRED_VOTES, decided at this block's beginning
				bad[v] = true
			}
		}
		e.Bad = sortedKeys(bad)
		for _, u := range b.Updates {
			if _, ok := e.Upd[u.V]; ok {
				e.Dup = true
			}
			e.Upd[u.V] = u.Power
		}
		if e.Cur == nil {
			e.Cur = map[string]int64{}
		}
		if e.Nxt == nil {
			e.Nxt = map[string]int64{}
		}
		evs = append(evs, e)
		prev = b.State
	}
	return evs
}

func Get2(m map[string]map[string]int64, a, b string) int64 {
	if x, ok := m[a]; ok {
		return x[b]
	}
	return 0
}

// ---------------------------------------------------------------------------------
// Allegation_Trace events (C19)

type AllegTx struct {
	K       string `json:"k"`
	By      string `json:"by"`
	ID      string `json:"id"`
	Accused string `json:"accused"`
	Choice  int64  `json:"choice"`
	V       string `json:"v"`
}

type AllegReq struct {
	Accused string           `json:"accused"`
	Votes   map[string]int64 `json:"votes"`
}

type FrozenAbs struct {
	Status int64 `json:"status"`
	At     int64 `json:"at"`
}

type AllegEvent struct {
	T           int                  `json:"t"`
	Ev          string               `json:"ev"`
	H           int64                `json:"h"`
	Secs        int64                `json:"secs"`
	VotePct     int64                `json:"votePct"`
	AllegPct    int64                `json:"allegPct"`
	PenaltyPct  int64                `json:"penaltyPct"`
	BountyPct   int64                `json:"bountyPct"`
	ReleaseDays int64                `json:"releaseDays"`
	Base        int64                `json:"base"`
	Active      []string             `json:"active"`
	Frozen      map[string]FrozenAbs `json:"frozen"`
	Txs         []AllegTx            `json:"txs"`
	ReqPre      map[string]AllegReq  `json:"reqPre"`
	ReqPost     map[string]AllegReq  `json:"reqPost"`
	ActiveCount int64                `json:"activeCount"`
	NewFrozen   map[string]int64     `json:"newFrozen"` // frozen in this block: validator -> status
	Verdicts    map[string]string    `json:"verdicts"`  // accused -> "guilty" | "innocent" (block-end events)
	StakePre    map[string]int64     `json:"stakePre"`
	StakeDelta  map[string]int64     `json:"stakeDelta"`
	StakePost   map[string]int64     `json:"stakePost"`
	BountyPre   int64                `json:"bountyPre"`
	BountyPost  int64                `json:"bountyPost"`
	BountyIn    int64                `json:"bountyIn"` // sent to the bounty pool by transactions of the block
	DupVotes    []string             `json:"dupVotes"`
}

func allegReqs(s *AbsState) (map[string]AllegReq, []string) {
	out := map[string]AllegReq{}
	dup := []string{}
	for id, r := range s.Requests {
		out[id] = AllegReq{Accused: r.Accused, Votes: r.Votes}
		if len(r.Order) != len(r.Votes) {
			dup = append(dup, id)
		}
	}
	sort.Strings(dup)
	return out, dup
}

func AllegEvents(t int, sc *Scenario, tr *Transcript) []AllegEvent {
	if tr.InitState == nil {
		return nil
	}
	var evs []AllegEvent
	prev := tr.InitState
	base := pow10(sc.Genesis.OLTDecimal)
	bounty := func(s *AbsState) int64 { return s.Bal["pool:"+BountyAddr]["OLT"] }
	ridOf := map[string]string{}
	for _, n := range reqNames {
		ridOf[n] = n
	}
	for _, b := range tr.Blocks {
		if b.State == nil {
			break
		}
		e := AllegEvent{T: t, Ev: "Block", H: b.H, Secs: b.Secs, Base: base,
			VotePct: optInt(prev, "evidenceopt", "validatorVotePercentage"), AllegPct: optInt(prev, "evidenceopt", "allegationPercentage"),
			PenaltyPct: optInt(prev, "evidenceopt", "penaltyBasePercentage"), BountyPct: optInt(prev, "evidenceopt", "penaltyBountyPercentage"),
			ReleaseDays: optInt(prev, "evidenceopt", "validatorReleaseTime"),
			Frozen:      map[string]FrozenAbs{}, Txs: []AllegTx{}, NewFrozen: map[string]int64{}, Verdicts: map[string]string{},
			StakePre: prev.StakeTot, StakeDelta: map[string]int64{}, StakePost: b.State.StakeTot, BountyPre: bounty(prev), BountyPost: bounty(b.State)}
		act := map[string]bool{}
		for v, st := range prev.Status {
			if st.Active {
				act[v] = true
			}
		}
		e.Active = sortedKeys(act)
		for v, f := range prev.Frozen {
			if f.IsFrozen {
				e.Frozen[v] = FrozenAbs{Status: f.Status, At: f.At}
			}
		}
		e.ReqPre, _ = allegReqs(prev)
		e.ReqPost, e.DupVotes = allegReqs(b.State)
		for _, u := range b.Updates {
			if u.Power > 0 {
				e.ActiveCount++
			}
		}
		for v, f := range b.State.Frozen {
			if f.Height == b.H && f.IsFrozen {
				e.NewFrozen[v] = f.Status
			}
		}
		for _, ev := range b.Events {
			if ev.Type == "allegation_tracker" {
				n := sc.nameOfRawHex(ev.Attrs["block.malicious"])
				switch ev.Attrs["block.status"] {
				case "03":
					e.Verdicts[n] = "guilty"
				case "02":
					e.Verdicts[n] = "innocent"
				}
			}
		}
		for _, tx := range b.Txs {
			if !accepted(tx) {
				continue
			}
			switch tx.Req.Kind {
			case "ALLEGATION":
				e.Txs = append(e.Txs, AllegTx{K: "ALLEGATION", By: tx.Req.S("by"), ID: tx.Req.S("id"), Accused: tx.Req.S("accused")})
			case "ALLEGATION_VOTE":
				e.Txs = append(e.Txs, AllegTx{K: "VOTE", By: tx.Req.S("by"), ID: tx.Req.S("id"), Choice: tx.Req.I("choice")})
			case "RELEASE":
				e.Txs = append(e.Txs, AllegTx{K: "RELEASE", V: tx.Req.S("v")})
			case "STAKE", "UNSTAKE", "WITHDRAW":
				a, _ := argInt(tx.Req, "amt")
				e.Txs = append(e.Txs, AllegTx{K: tx.Req.Kind, V: tx.Req.S("v")})
				if tx.Req.Kind == "STAKE" {
					e.StakeDelta[tx.Req.S("v")] += a
				} else if tx.Req.Kind == "UNSTAKE" {
					e.StakeDelta[tx.Req.S("v")] -= a
				}
			case "SENDPOOL":
				if tx.Req.S("pool") == "BountyPool" {
					a, _ := argInt(tx.Req, "amt")
					e.BountyIn += a
				}
			}
		}
		if e.DupVotes == nil {
			e.DupVotes = []string{}
		}
		evs = append(evs, e)
		prev = b.State
	}
	return evs
}

func (sc *Scenario) nameOfRawHex(h string) string {
	g := genesisCache(sc.Genesis)
	if n, ok := g.Names[h]; ok {
		return n
	}
	return "x:" + h
}

var gcache = map[string]*Genesis{}
var gcacheMu sync.Mutex

func genesisCache(gs GenesisSpec) *Genesis {
	k, _ := json.Marshal(gs)
	gcacheMu.Lock()
	defer gcacheMu.Unlock()
	if g, ok := gcache[string(k)]; ok {
		return g
	}
	g := BuildGenesis(gs)
	gcache[string(k)] = g
	return g
}

// ---------------------------------------------------------------------------------
// EthTracker_Trace events (C15)

type EthTxEv struct {
	K     string `json:"k"`
	X     string `json:"x"`
	Owner string `json:"owner"`
	Amt   int64  `json:"amt"`
	By    string `json:"by"`
	Idx   int64  `json:"idx"`
	Ok    bool   `json:"ok"`
	Lockr string `json:"locker"`
}

type EthTrk struct {
	Store string   `json:"store"`
	Type  string   `json:"type"`
	Owner string   `json:"owner"`
	Amt   int64    `json:"amt"`
	Wits  []string `json:"wits"`
	Votes []int64  `json:"votes"`
	Done  bool     `json:"done"`
	State int64    `json:"state"`
}

type EthEvent struct {
	T           int               `json:"t"`
	Ev          string            `json:"ev"`
	H           int64             `json:"h"`
	Cap         int64             `json:"cap"`
	Wits        []string          `json:"wits"`
	Txs         []EthTxEv         `json:"txs"`
	Trk         map[string]EthTrk `json:"trk"`
	Bal         map[string]int64  `json:"bal"`
	DupTrackers []string          `json:"dupTrackers"`
}

func ethBal(s *AbsState, cur string) map[string]int64 {
	out := map[string]int64{}
	for o, m := range s.Bal {
		if v, ok := m[cur]; ok {
			out[o] = v
		}
	}
	return out
}

func ethTrk(s *AbsState) (map[string]EthTrk, []string) {
	out := map[string]EthTrk{}
	for n, t := range s.Trackers {
		parts := splitN(n, ":")
		e := EthTrk{Store: t.Store, Owner: t.Owner, Wits: t.Wits, Votes: t.Votes, State: t.State, Type: "lock"}
		if t.Type == 2 || t.Type == 4 { // ProcessTypeRedeem, ProcessTypeRedeemERC
			e.Type = "redeem"
		}
		if len(parts) == 4 {
			fmt.Sscan(parts[2], &e.Amt)
		}
		yes, no := 0, 0
		for _, v := range t.Votes {
			if v == 1 {
				yes++
			}
			if v == 2 {
				no++
			}
		}
		th := len(t.Wits)*2/3 + 1
		e.Done = yes >= th || no >= th
		if e.Wits == nil {
			e.Wits = []string{}
		}
		out[n] = e
	}
	dup := []string{}
	for _, b := range s.Bad {
		if len(b) > 8 && b[:8] == "tracker:" {
			dup = append(dup, b)
		}
	}
	return out, dup
}

func splitN(s, sep string) []string {
	var out []string
	cur := ""
	for _, c := range s {
		if string(c) == sep {
			out = append(out, cur)
			cur = ""
		} else {
			cur += string(c)
		}
	}
	return append(out, cur)
}

func EthEvents(t int, sc *Scenario, tr *Transcript) []EthEvent {
	if tr.InitState == nil {
		return nil
	}
	g := genesisCache(sc.Genesis)
	var wits []string
	{
		type wa struct {
			n string
			a []byte
		}
		var ws []wa
		for _, n := range sc.Genesis.Witnesses {
			ws = append(ws, wa{n, g.Validators[n].Val.Addr})
		}
		sort.Slice(ws, func(i, j int) bool { return string(ws[i].a) < string(ws[j].a) })
		for _, w := range ws {
			wits = append(wits, w.n)
		}
	}
	var capv int64
	fmt.Sscan(sc.Genesis.EthSupplyCap, &capv)
	cur := "ETH"
	if sc.Genesis.Erc20 {
		cur = "TTC" // the erc20 workloads move the token's wrapped currency only
	}
	evs := []EthEvent{{T: t, Ev: "Init", Bal: ethBal(tr.InitState, cur), Wits: wits, Cap: capv, Txs: []EthTxEv{}, Trk: map[string]EthTrk{}, DupTrackers: []string{}}}
	for _, b := range tr.Blocks {
		if b.State == nil {
			break
		}
		e := EthEvent{T: t, Ev: "Block", H: b.H, Cap: capv, Wits: wits, Txs: []EthTxEv{}, Bal: ethBal(b.State, cur)}
		e.Trk, e.DupTrackers = ethTrk(b.State)
		for _, tx := range b.Txs {
			if !accepted(tx) {
				continue
			}
			switch tx.Req.Kind {
			case "ETH_LOCK":
				e.Txs = append(e.Txs, EthTxEv{K: "LOCK", X: ExtKey("lock", tx.Req.S("owner"), tx.Req.I("amt"), tx.Req.I("n")), Owner: tx.Req.S("owner"), Amt: tx.Req.I("amt")})
			case "ETH_REDEEM":
				e.Txs = append(e.Txs, EthTxEv{K: "REDEEM", X: ExtKey("redeem", tx.Req.S("owner"), tx.Req.I("amt"), tx.Req.I("n")), Owner: tx.Req.S("owner"), Amt: tx.Req.I("amt")})
			case "ETH_REPORT":
				idx := tx.Req.I("idx")
				if _, given := tx.Req.A["idx"]; !given {
					idx = g.WitnessIndex(tx.Req.S("by"))
					if idx < 0 {
						idx = 0
					}
				}
				e.Txs = append(e.Txs, EthTxEv{K: "REPORT", X: ExtKey(tx.Req.S("tkind"), tx.Req.S("towner"), tx.Req.I("tamt"), tx.Req.I("tn")),
					By: tx.Req.S("by"), Idx: idx, Ok: tx.Req.I("ok") != 0, Lockr: tx.Req.S("locker")})
			}
		}
		evs = append(evs, e)
	}
	return evs
}

// ---------------------------------------------------------------------------------
// Governance_Trace events (C14)

type GovTx struct {
	K   string `json:"k"`
	ID  string `json:"id"`
	By  string `json:"by"`
	Amt int64  `json:"amt"`
	Op  int64  `json:"op"`
	V   string `json:"v"`
	To  string `json:"to"`
}

type GovProp struct {
	Store    string `json:"store"`
	Status   int64  `json:"status"`
	Outcome  int64  `json:"outcome"`
	Type     int64  `json:"type"`
	Proposer string `json:"proposer"`
	FundDL   int64  `json:"fundDL"`
	VoteDL   int64  `json:"voteDL"`
	Goal     int64  `json:"goal"`
	PassPct  int64  `json:"passPct"`
	Group    string `json:"group"` // option record a configuration proposal updates ("" when none)
}

// option record named by the first segment of a configuration update key
var govGroups = map[string]string{"feeOption": "feeopt", "onsOptions": "onsopt", "stakingOptions": "stakingopt", "propOptions": "proposal",
	"evidenceOptions": "evidenceopt", "rewardOptions": "reward", "networkDelegOptions": "networkdelegopt", "ethOptions": "ethcdopt", "btcOptions": "btccdopt"}

func govGroup(update string) string {
	if i := strings.Index(update, "."); i > 0 {
		if g, ok := govGroups[update[:i]]; ok {
			return g
		}
		return "?" + update[:i]
	}
	return ""
}

// optValue walks an option record along a configuration key ("a.b.c", first segment dropped),
// matching field names case-insensitively; ok is false when the path does not resolve.
func optValue(raw json.RawMessage, path []string) (string, bool) {
	var cur interface{}
	if json.Unmarshal(raw, &cur) != nil {
		return "", false
	}
	for _, seg := range path {
		m, ok := cur.(map[string]interface{})
		if !ok {
			return "", false
		}
		found := false
		for k, v := range m {
			if strings.EqualFold(k, seg) {
				cur, found = v, true
				break
			}
		}
		if !found {
			return "", false
		}
	}
	switch v := cur.(type) {
	case float64:
		return strconv.FormatFloat(v, 'f', -1, 64), true
	case string:
		return v, true
	}
	return "", false
}

type GovVote struct {
	Op    int64 `json:"op"`
	Power int64 `json:"power"`
}

type GovEvent struct {
	T           int                           `json:"t"`
	Ev          string                        `json:"ev"`
	H           int64                         `json:"h"`
	Pre         map[string]GovProp            `json:"pre"`
	Post        map[string]GovProp            `json:"post"`
	VotesPre    map[string]map[string]GovVote `json:"votesPre"`
	VotesPost   map[string]map[string]GovVote `json:"votesPost"`
	FundsPre    map[string]map[string]int64   `json:"fundsPre"`
	FundsPost   map[string]map[string]int64   `json:"fundsPost"`
	FundTPost   map[string]int64              `json:"fundTPost"`
	Txs         []GovTx                       `json:"txs"`
	OptsChanged []string                      `json:"optsChanged"`
	// configuration proposals finalised as passed in this block whose option does not hold the proposed value afterwards
	NotApplied []string `json:"notApplied"`
}

func govProps(s *AbsState) map[string]GovProp {
	out := map[string]GovProp{}
	for n, p := range s.Props {
		out[n] = GovProp{Store: p.Store, Status: p.Status, Outcome: p.Outcome, Type: p.Type, Proposer: p.Proposer, FundDL: p.FundDL, VoteDL: p.VoteDL, Goal: p.Goal, PassPct: p.PassPct, Group: govGroup(p.Update)}
	}
	return out
}

func govVotes(s *AbsState) map[string]map[string]GovVote {
	out := map[string]map[string]GovVote{}
	for p, m := range s.PropVotes {
		out[p] = map[string]GovVote{}
		for v, r := range m {
			out[p][v] = GovVote{Op: r.Opinion, Power: r.Power}
		}
	}
	return out
}

func GovEvents(t int, sc *Scenario, tr *Transcript) []GovEvent {
	if tr.InitState == nil {
		return nil
	}
	var evs []GovEvent
	prev := tr.InitState
	for _, b := range tr.Blocks {
		if b.State == nil {
			break
		}
		e := GovEvent{T: t, Ev: "Block", H: b.H, Pre: govProps(prev), Post: govProps(b.State), VotesPre: govVotes(prev), VotesPost: govVotes(b.State),
			FundsPre: prev.PropFunds, FundsPost: b.State.PropFunds, FundTPost: b.State.PropFundT, Txs: []GovTx{}, OptsChanged: []string{}}
		for name, raw := range b.State.Opts {
			if string(prev.Opts[name]) != string(raw) {
				e.OptsChanged = append(e.OptsChanged, name)
			}
		}
		sort.Strings(e.OptsChanged)
		e.NotApplied = []string{}
		byKey := map[string][]string{}
		for n, p := range b.State.Props {
			if q, was := prev.Props[n]; p.Store == "Finalized" && p.Outcome == 49 && p.Type == 32 && !(was && q.Store == "Finalized") {
				byKey[strings.SplitN(p.Update, ":", 2)[0]] = append(byKey[strings.SplitN(p.Update, ":", 2)[0]], n)
			}
		}
		for key, ps := range byKey {
			kv := strings.SplitN(b.State.Props[ps[0]].Update, ":", 2)
			segs := strings.Split(key, ".")
			if len(ps) != 1 || len(kv) != 2 || len(segs) < 2 {
				continue // two proposals on one key in one block: the later one wins, not judged
			}
			if got, ok := optValue(b.State.Opts[govGroup(key)], segs[1:]); ok && got != kv[1] {
				e.NotApplied = append(e.NotApplied, ps[0])
			}
		}
		sort.Strings(e.NotApplied)
		for _, tx := range b.Txs {
			if !accepted(tx) {
				continue
			}
			a, _ := argInt(tx.Req, "amt")
			switch tx.Req.Kind {
			case "PROP_CREATE":
				e.Txs = append(e.Txs, GovTx{K: "CREATE", ID: tx.Req.S("id"), By: tx.Req.S("by"), Amt: a})
			case "PROP_FUND":
				e.Txs = append(e.Txs, GovTx{K: "FUND", ID: tx.Req.S("id"), By: tx.Req.S("by"), Amt: a})
			case "PROP_VOTE":
				e.Txs = append(e.Txs, GovTx{K: "VOTE", ID: tx.Req.S("id"), By: tx.Req.S("by"), V: tx.Req.S("v"), Op: tx.Req.I("op")})
			case "PROP_CANCEL":
				e.Txs = append(e.Txs, GovTx{K: "CANCEL", ID: tx.Req.S("id"), By: tx.Req.S("by")})
			case "PROP_WITHDRAW":
				e.Txs = append(e.Txs, GovTx{K: "WITHDRAW", ID: tx.Req.S("id"), By: tx.Req.S("by"), Amt: a, To: tx.Req.S("to")})
			case "PROP_EXPIRE":
				e.Txs = append(e.Txs, GovTx{K: "EXPIRE", ID: tx.Req.S("id"), By: tx.Req.S("by")})
			case "PROP_FINALIZE":
				e.Txs = append(e.Txs, GovTx{K: "FINALIZE", ID: tx.Req.S("id"), By: tx.Req.S("by")})
			}
		}
		evs = append(evs, e)
		prev = b.State
	}
	return evs
}
