package vapp

import (
	"fmt"
	"math/rand"
	"strings"
)

// Workload generators: seeded random abstract histories.  They only produce *requests*;
// what the code does with them is observed and then judged by TLC against the
// specifications (trace validation), so a generator needs no oracle of its own.

type A = map[string]interface{}

// adversarial amount classes (C02 / C18)
var hostileAmounts = []interface{}{
	-1, -500, 0, "9223372036854775808", "18446744073709551617", "-18446744073709551617", "340282366920938463463374607431768211456",
}
var hostileNames = []string{"neg", "neg", "zero", "2^63", "2^64+1", "-(2^64+1)", "2^128"}

type Gen struct {
	R       *rand.Rand
	G       GenesisSpec
	accts   []string // EOAs
	vals    []string // validator identities (initial + candidates)
	curH    int64    // height of the block being generated
	class   string   // class of the request being drawn
	hclass  string   // which aspect of the request is adversarial
	Exodus  bool     // allow every validator to unstake everything
	Hostile float64  // probability that a block contains one adversarial request
	Direct  float64  // probability of direct delivery (byzantine proposer) for adversarial requests
}

func NewGen(seed int64, gs GenesisSpec) *Gen {
	g := &Gen{R: rand.New(rand.NewSource(seed)), G: gs, Hostile: 0.4, Direct: 0.25}
	g.accts = append(g.accts, gs.Accounts...)
	for _, v := range gs.Validators {
		g.vals = append(g.vals, v.Name)
	}
	g.vals = append(g.vals, gs.Candidates...)
	return g
}

func (g *Gen) pick(xs []string) string { return xs[g.R.Intn(len(xs))] }
func (g *Gen) rng(lo, hi int) int      { return lo + g.R.Intn(hi-lo+1) }

func (g *Gen) anyOwner() string {
	if g.R.Intn(3) == 0 {
		return "s" + g.pick(g.vals)
	}
	return g.pick(g.accts)
}

// amount returns a mostly sensible amount, sometimes an adversarial one (the class is
// remembered in g.class for attribution).
func (g *Gen) amount(lo, hi int, hostile bool) interface{} {
	if hostile && g.hclass == "amt" {
		switch g.R.Intn(3) {
		case 0:
			i := g.R.Intn(len(hostileAmounts))
			g.class = "amt:" + hostileNames[i]
			return hostileAmounts[i]
		case 1:
			g.class = "amt:over-balance"
			return g.G.Balance + int64(g.rng(1, 1000)) // more than anyone owns
		default:
			g.class = "amt:large"
			return hi * 50
		}
	}
	return g.rng(lo, hi)
}

// Tx draws one request of the given kind.
func (g *Gen) Tx(kind string, hostile bool) STx {
	t := TxReq{Kind: kind}
	g.class = ""
	g.hclass = ""
	if hostile {
		g.hclass = []string{"amt", "amt", "amt", "cur", "signer", "gas"}[g.R.Intn(6)]
	}
	switch kind {
	case "SEND":
		from := g.anyOwner()
		to := g.anyOwner()
		if g.R.Intn(10) == 0 {
			to = fmt.Sprintf("n%d", g.R.Intn(3)) // fresh address
		}
		t.A = A{"from": from, "to": to, "amt": g.amount(1, 5000, hostile)}
	case "SENDPOOL":
		pools := []string{"RewardsPool", "DelegationPool", "BountyPool", "FeePool", "NoSuchPool"}
		t.A = A{"from": g.anyOwner(), "pool": g.pick(pools), "amt": g.amount(1, 3000, hostile)}
	case "STAKE":
		v := g.pick(g.vals)
		d := "s" + v
		if g.R.Intn(5) == 0 {
			d = g.pick(g.accts) // another account tries to be the stake address
		}
		t.A = A{"v": v, "d": d, "amt": g.amount(1, 3, hostile)}
	case "UNSTAKE", "WITHDRAW":
		v := g.pick(g.vals)
		if kind == "UNSTAKE" && !g.Exodus && len(g.vals) > 1 {
			// ordinary histories keep the first validator staked so that the chain always has
			// an eligible validator (the "everybody leaves" history is a family of its own)
			for v == g.vals[0] {
				v = g.pick(g.vals)
			}
		}
		d := "s" + v
		if g.R.Intn(6) == 0 {
			d = g.pick(g.accts)
		}
		t.A = A{"v": v, "d": d, "amt": g.amount(1, 3, hostile)}
	case "DELEGATE":
		t.A = A{"d": g.pick(g.accts), "amt": g.amount(50, 500, hostile)}
	case "UNDELEGATE":
		t.A = A{"d": g.pick(g.accts), "amt": g.amount(20, 300, hostile)}
	case "DELEG_WITHDRAW", "DELEG_REINVEST":
		t.A = A{"d": g.pick(g.accts), "amt": g.amount(1, 200, hostile)}
	case "REWARD_WITHDRAW":
		v := g.pick(g.vals)
		signer := "s" + v
		if g.R.Intn(4) == 0 {
			signer = g.pick(g.accts)
		}
		t.A = A{"v": v, "signer": signer, "amt": g.amount(1, 3000, hostile)}
	default:
		return g.txExt(kind, hostile)
	}
	return g.finish(t, hostile)
}

// finish applies the non-amount adversarial classes and the submission path.
func (g *Gen) finish(t TxReq, hostile bool) STx {
	switch g.hclass {
	case "cur":
		if g.R.Intn(2) == 0 {
			t.Cur, g.class = "XYZ", "cur:unknown"
		} else {
			t.Cur, g.class = "VT", "cur:other"
		}
	case "signer":
		// impersonation: somebody else signs (all other fields valid)
		_, signers := BuildGenesis(g.G).Msg(t)
		for i := range signers {
			signers[i] = g.pick(g.accts)
		}
		t.Signers = signers
		g.class = "signer:other"
	case "gas":
		t.Gas = int64(g.rng(1, 20000)) // gas limit too low: fee step fails
		g.class = "gas:low"
	}
	t.Class = g.class
	st := STx{Req: t, Path: "honest"}
	if hostile && g.R.Float64() < g.Direct {
		st.Path = "direct"
	}
	return st
}

var BaseKinds = []string{"SEND", "SEND", "SENDPOOL", "STAKE", "UNSTAKE", "WITHDRAW", "DELEGATE", "DELEGATE", "UNDELEGATE", "DELEG_WITHDRAW", "DELEG_REINVEST", "REWARD_WITHDRAW"}

// Mixed builds a history of n blocks with 0..maxTx requests per block drawn from kinds.
func (g *Gen) Mixed(id string, n, maxTx int, kinds []string) *Scenario {
	sc := &Scenario{ID: id, Genesis: g.G}
	for i := 0; i < n; i++ {
		g.curH = int64(i + 1)
		// block times are on the scale of the reward schedule (a reward year is about 30 blocks)
		b := SBlock{DT: int64(g.rng(500000, 1500000)), Proposer: g.pick(g.vals)}
		switch g.R.Intn(8) {
		case 0:
			b.DT = int64(g.rng(1, 20))
		case 1:
			b.DT = int64(g.rng(3000000, 9000000)) // jump: crosses reward cycles and years
		}
		if g.R.Intn(5) == 0 {
			b.Absent = []string{g.pick(g.vals)}
		}
		k := g.R.Intn(maxTx + 1)
		// at most one adversarial request per block, so that a violation is attributable
		hi := -1
		if k > 0 && g.R.Float64() < g.Hostile {
			hi = g.R.Intn(k)
		}
		for j := 0; j < k; j++ {
			b.Txs = append(b.Txs, g.Tx(g.pick(kinds), j == hi))
		}
		sc.Blocks = append(sc.Blocks, b)
	}
	return sc
}

// FamilyScenario returns scenario i of a workload family, deterministic in (seed, i).
func FamilyScenario(family string, seed int64, i, blocks, maxTx int) *Scenario {
	gs := DefaultGenesis()
	if family == "alleg" || family == "allegset" {
		gs = AllegGenesis()
	}
	if family == "eth" {
		gs = EthGenesis()
	}
	if family == "eth5" {
		gs = EthGenesis5()
	}
	if family == "erc20" {
		gs = Erc20Genesis()
	}
	if family == "olvm" {
		gs = OlvmGenesis()
	}
	if family == "gov" && i%4 == 1 {
		gs.Proposal.NoBurn = true // fund distributions without a burnt part
	}
	if family == "gov" && i%4 == 3 {
		// a pass percentage of 67 with powers 5, 4 and (staked in the story) 3: one dissenter holds exactly a third
		gs.Proposal.PassPct = 67
		gs.Staking.Top = 3
	}
	if family == "ethstory" { // guided tracker histories on the three witness genesis documents in turn
		gs = []GenesisSpec{EthGenesis(), Erc20Genesis(), EthGenesis5()}[i%3]
	}
	if family == "govstake" { // a staking option changed by a proposal, on the genesis whose fork puts the options in range
		gs = OlvmGenesis()
	}
	if family == "olvmfork" { // the fork that switches the EVM on lies inside the history
		gs = OlvmGenesis()
		gs.Fork = int64(4 + i%4)
	}
	// "<family>@gas": the same workload on a chain whose genesis limits the gas of a block (consensus parameter
	// block.max_gas); the limit differs per history so that blocks end below, near and above it
	if strings.HasSuffix(family, "@gas") {
		base := strings.TrimSuffix(family, "@gas")
		sc := FamilyScenario(base, seed, i, blocks, maxTx)
		sc.ID = fmt.Sprintf("%s-%d-%d", family, seed, i)
		sc.Genesis.MaxGas = int64(30000 + 7919*(i%23))
		return sc
	}
	id := fmt.Sprintf("%s-%d-%d", family, seed, i)
	g := NewGen(seed*1000003+int64(i), gs)
	switch family {
	case "base":
		return g.Mixed(id, blocks, maxTx, BaseKinds)
	case "benign":
		g.Hostile = 0
		return g.Mixed(id, blocks, maxTx, BaseKinds)
	}
	if sc := familyExt(family, id, g, blocks, maxTx); sc != nil {
		return sc
	}
	panic("unknown family " + family)
}

// FamilyKinds lists the transaction kinds a family draws from.
func FamilyKinds(family string) []string {
	family = strings.TrimSuffix(family, "@gas")
	switch family {
	case "base", "benign":
		return BaseKinds
	}
	if k := familyKindsExt(family); k != nil {
		return k
	}
	return BaseKinds
}
