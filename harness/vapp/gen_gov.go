package vapp

import "sort"

// GovStory builds a governance history: a few proposals that are created, funded (to the goal
// or not), voted on, cancelled, expired and finalised, with deviations at every step (late
// funds and votes, strangers cancelling, withdrawals at the wrong time and to other
// beneficiaries, user-sent expire / finalize transactions).
func (g *Gen) GovStory(id string, blocks int) *Scenario {
	sc := &Scenario{ID: id, Genesis: g.G}
	po := g.G.Proposal
	type ev struct {
		h  int
		tx STx
	}
	var evs []ev
	add := func(h int, kind string, a A, hostile bool) {
		if h < 1 || h > blocks {
			return
		}
		g.curH = int64(h)
		t := TxReq{Kind: kind, A: a}
		g.class = ""
		g.hclass = ""
		if hostile {
			g.hclass = []string{"cur", "signer", "gas"}[g.R.Intn(3)]
			if _, has := a["amt"]; has && g.R.Intn(2) == 0 {
				g.hclass = "amt"
				a["amt"] = g.amount(100, 2000, true)
			}
		}
		st := g.finish(t, hostile)
		if !hostile && g.R.Intn(4) == 0 {
			// included by the proposer without the mempool's check: CheckTx runs against the header of the
			// previous block, so only direct inclusion delivers a request at the first height a deadline rule changes
			st.Path = "direct"
		}
		evs = append(evs, ev{h, st})
	}
	funders := append(append([]string{}, g.accts...), "sv1", "sv2")
	valOwners := map[string]string{}
	for _, v := range g.vals {
		valOwners[v] = "s" + v
	}
	// the third validator stakes 3: with powers 5, 4, 3 and a pass percentage of 67 a single NO of the second
	// validator (a third of the power) decides the vote, a single NO of the third does not
	third := po.PassPct == 67 && len(g.G.Candidates) > 0
	if third {
		c3 := g.G.Candidates[0]
		evs = append(evs, ev{1, STx{Req: TxReq{Kind: "STAKE", A: A{"v": c3, "d": "s" + c3, "amt": 3}}, Path: "honest"}})
	}
	np := 2 + g.R.Intn(2)
	for pi := 0; pi < np; pi++ {
		pid := propNames[pi]
		c := 1 + g.R.Intn(4)
		proposer := g.pick(funders)
		fundDL := c + 1 + g.R.Intn(int(po.FundingDeadline))
		typ := []string{"config", "config", "code", "general"}[g.R.Intn(4)]
		upd := ""
		if typ == "config" {
			// the small-amount genesis is outside the validation ranges of the staking, evidence and proposal groups,
			// so mostly the groups whose validation it satisfies are updated (the others exercise the rejected create)
			upd = []string{"onsOptions.perBlockFees:20", "onsOptions.perBlockFees:30", "onsOptions.baseDomainPrice:70", "onsOptions.baseDomainPrice:80",
				"feeOption.minFeeDecimal:2", "stakingOptions.topValidatorCount:3", "evidenceOptions.minVotesRequired:1"}[g.R.Intn(7)]
		}
		initial := g.rng(int(po.InitialFunding), int(po.InitialFunding)+1500)
		add(c, "PROP_CREATE", A{"id": pid, "type": typ, "by": proposer, "amt": initial, "fundDL": fundDL, "goal": po.FundingGoal,
			"voteDL": int64(fundDL) + po.VotingDeadline, "pass": po.PassPct, "update": upd}, false)
		if g.R.Intn(6) == 0 { // a second create with the same id
			add(c+g.R.Intn(3), "PROP_CREATE", A{"id": pid, "type": typ, "by": g.pick(funders), "amt": initial, "fundDL": fundDL + 2, "goal": po.FundingGoal,
				"voteDL": int64(fundDL+2) + po.VotingDeadline, "pass": po.PassPct, "update": upd}, false)
		}
		reach := g.R.Intn(10) < 7
		cancel := !reach && g.R.Intn(2) == 0
		funded := initial
		fundedAt := 0
		nf := 1 + g.R.Intn(4)
		for i := 0; i < nf; i++ {
			h := c + g.R.Intn(fundDL-c+2) // sometimes one block late
			amt := g.rng(300, 1800)
			if reach && i == nf-1 && funded < int(po.FundingGoal) {
				amt = int(po.FundingGoal) - funded + g.R.Intn(300)
				h = c + g.R.Intn(fundDL-c+1)
			}
			if !reach && funded+amt >= int(po.FundingGoal) {
				amt = 100
			}
			add(h, "PROP_FUND", A{"id": pid, "by": g.pick(funders), "amt": amt}, g.R.Intn(12) == 0)
			if h <= fundDL {
				funded += amt
				if funded >= int(po.FundingGoal) && fundedAt == 0 {
					fundedAt = h
				}
			}
		}
		if g.R.Intn(3) == 0 {
			// a negative contribution or withdrawal (one adversarial request per block is kept by the class)
			h := c + g.R.Intn(fundDL-c+3)
			kind := []string{"PROP_FUND", "PROP_WITHDRAW"}[g.R.Intn(2)]
			a := A{"id": pid, "by": g.pick(funders), "amt": -g.rng(1, 900)}
			if kind == "PROP_WITHDRAW" {
				a["to"] = a["by"]
			}
			if h >= 1 && h <= blocks {
				evs = append(evs, ev{h, STx{Req: TxReq{Kind: kind, A: a, Class: "amt:neg"}, Path: []string{"honest", "direct"}[g.R.Intn(2)]}})
			}
		}
		if cancel {
			by := proposer
			if g.R.Intn(4) == 0 {
				by = g.pick(funders)
			}
			add(c+g.R.Intn(fundDL-c+2), "PROP_CANCEL", A{"id": pid, "by": by}, false)
		}
		if g.R.Intn(5) == 0 { // a stranger tries to cancel
			add(c+g.R.Intn(4), "PROP_CANCEL", A{"id": pid, "by": g.pick(funders)}, false)
		}
		voteDL := fundedAt + int(po.VotingDeadline)
		if fundedAt > 0 {
			pattern := []int{0, 0, 1, 2, 3}[g.R.Intn(5)] // 0: pass, 1: fail, 2: undecided -> expiry, 3: mixed with give-up
			dissenter := ""
			if third && g.R.Intn(3) != 0 {
				pattern, dissenter = 4, g.vals[1+g.R.Intn(2)] // 4: everybody votes, one validator says NO
			}
			for vi, v := range g.vals {
				if pattern != 4 && vi >= len(g.G.Validators) && g.R.Intn(4) != 0 {
					continue // candidates are rarely validators when voting starts
				}
				op := 1
				if v == dissenter {
					op = 2
				}
				switch pattern {
				case 1:
					op = 2
				case 2:
					if g.R.Intn(2) == 0 {
						continue
					}
					op = []int{1, 2}[g.R.Intn(2)]
				case 3:
					op = []int{1, 2, 3}[g.R.Intn(3)]
				}
				h := fundedAt + 1 + g.R.Intn(int(po.VotingDeadline)+1)
				by := valOwners[v]
				if g.R.Intn(8) == 0 {
					by = g.pick(g.accts)
				}
				add(h, "PROP_VOTE", A{"id": pid, "by": by, "v": v, "op": op}, g.R.Intn(15) == 0)
				if g.R.Intn(6) == 0 { // votes again, maybe differently
					add(h+g.R.Intn(2), "PROP_VOTE", A{"id": pid, "by": by, "v": v, "op": []int{1, 2, 3, 0}[g.R.Intn(4)]}, false)
				}
			}
			if g.R.Intn(5) == 0 { // an out-of-range opinion
				v := g.pick(g.vals)
				add(fundedAt+1, "PROP_VOTE", A{"id": pid, "by": valOwners[v], "v": v, "op": 4 + g.R.Intn(3)}, false)
			}
		}
		// withdrawals: at the right and at wrong times, own and foreign beneficiaries, too much
		for i := 0; i < 1+g.R.Intn(3); i++ {
			by := g.pick(funders)
			to := by
			if g.R.Intn(3) == 0 {
				to = g.pick(funders)
			}
			h := c + g.R.Intn(blocks-c+1)
			if g.R.Intn(2) == 0 {
				// the proposer (always a funder) around the funding deadline: the goal can still be met at the deadline
				by, to = proposer, proposer
				h = fundDL - 1 + g.R.Intn(3)
				if !reach && !cancel && g.R.Intn(2) == 0 {
					h = fundDL
				}
				add(h, "PROP_WITHDRAW", A{"id": pid, "by": by, "to": to, "amt": g.rng(100, int(po.InitialFunding))}, false)
				continue
			}
			add(h, "PROP_WITHDRAW", A{"id": pid, "by": by, "to": to, "amt": g.rng(100, 2500)}, g.R.Intn(10) == 0)
		}
		// user-sent expire / finalize
		for i := 0; i < g.R.Intn(3); i++ {
			by := g.pick(g.vals)
			if g.R.Intn(2) == 0 {
				by = g.pick(g.accts)
			}
			kind := []string{"PROP_EXPIRE", "PROP_FINALIZE"}[g.R.Intn(2)]
			h := c + g.R.Intn(blocks-c+1)
			if g.R.Intn(3) == 0 {
				h = voteDL + g.R.Intn(2) // at the deadline and in the first block after it
			}
			add(h, kind, A{"id": pid, "by": by}, false)
		}
	}
	// background traffic: validator-set changes and transfers
	for h := 1; h <= blocks; h++ {
		if g.R.Intn(4) == 0 {
			g.curH = int64(h)
			kind := []string{"SEND", "STAKE", "UNSTAKE", "SEND"}[g.R.Intn(4)]
			if third {
				kind = "SEND" // the powers stay 5, 4, 3
			}
			evs = append(evs, ev{h, g.Tx(kind, false)})
		}
	}
	sort.SliceStable(evs, func(i, j int) bool { return evs[i].h < evs[j].h })
	for h := 1; h <= blocks; h++ {
		b := SBlock{DT: int64(g.rng(500000, 1500000)), Proposer: g.pick(g.vals)}
		for _, e := range evs {
			if e.h == h {
				b.Txs = append(b.Txs, e.tx)
			}
		}
		sc.Blocks = append(sc.Blocks, b)
	}
	return sc
}

// GovFeeStory: a configuration proposal that raises the minimum fee passes; somebody sends the
// finalise transaction himself right after the deciding vote, and ordinary transfers at the old
// fee price go on in every block.  What the fee check of a block accepts must not depend on
// whether a node's mempool has seen that finalise request (C07): the handler's CheckTx run
// updates the option copies the application keeps in memory.
func (g *Gen) GovFeeStory(id string, blocks int) *Scenario {
	sc := &Scenario{ID: id, Genesis: g.G}
	po := g.G.Proposal
	type ev struct {
		h  int
		tx STx
	}
	var evs []ev
	add := func(h int, kind string, a A) {
		if h >= 1 && h <= blocks {
			evs = append(evs, ev{h, STx{Req: TxReq{Kind: kind, A: a}, Path: "honest"}})
		}
	}
	c := 3 + g.R.Intn(2) // the vote snapshot needs the validators known as active (from block 3 on)
	upd := []string{"feeOption.minFeeDecimal:1", "feeOption.minFeeDecimal:0", "onsOptions.perBlockFees:20"}[g.R.Intn(3)]
	if g.G.Fork > 0 {
		// family govstake: on the genesis with the fork (which rewrites the staking options into the ranges the update
		// language accepts) a proposal changes a staking option - the record is written under a height and is found
		// through a last-update height, both of which a restarted node has to reproduce
		upd = []string{"stakingOptions.maturityTime:109200", "stakingOptions.maturityTime:200000", "stakingOptions.maturityTime:468000"}[g.R.Intn(3)] // the only option the genesis leaves out of range
	}
	add(c, "PROP_CREATE", A{"id": "p1", "type": "config", "by": "a1", "amt": int(po.InitialFunding), "fundDL": c + 2, "goal": po.FundingGoal,
		"voteDL": int64(c+2) + po.VotingDeadline, "pass": po.PassPct, "update": upd})
	add(c+1, "PROP_FUND", A{"id": "p1", "by": "a2", "amt": int(po.FundingGoal)})
	// v1 holds 5 of 9: its yes decides; the user-sent finalise goes into the block after the deciding vote (its mempool
	// check runs before that block begins, the application's own finalisation at that block's end), sometimes one block later
	vh := c + 2 + g.R.Intn(2)
	add(vh, "PROP_VOTE", A{"id": "p1", "by": "sv1", "v": "v1", "op": 1})
	fh := vh + 1
	if g.R.Intn(4) == 0 {
		fh++
	}
	// a transfer at the old fee price that the block's proposer took into its mempool before the finalise request
	// arrived; it comes first in the block
	add(fh, "SEND", A{"from": "a3", "to": "a1", "amt": 77})
	evs[len(evs)-1].tx.Path = "direct"
	add(fh, "PROP_FINALIZE", A{"id": "p1", "by": g.pick(g.accts)})
	for h := 1; h <= blocks; h++ {
		for k := 0; k < 1+g.R.Intn(2); k++ {
			add(h, "SEND", A{"from": g.pick(g.accts), "to": g.pick(g.accts), "amt": g.rng(1, 500)})
			if g.R.Intn(2) == 0 {
				// proposed by a node whose mempool took it before the finalise request arrived anywhere
				evs[len(evs)-1].tx.Path = "direct"
			}
		}
		if g.R.Intn(3) == 0 {
			add(h, "DOM_CREATE", A{"owner": g.pick(g.accts), "benef": "a1", "name": g.pick(domNames), "uri": "", "amt": int(g.G.Ons.Base) + g.rng(20, 90)})
		}
	}
	sort.SliceStable(evs, func(i, j int) bool { return evs[i].h < evs[j].h })
	for h := 1; h <= blocks; h++ {
		b := SBlock{DT: int64(g.rng(500000, 1500000)), Proposer: g.pick(g.vals)}
		for _, e := range evs {
			if e.h == h {
				b.Txs = append(b.Txs, e.tx)
			}
		}
		sc.Blocks = append(sc.Blocks, b)
	}
	return sc
}
