package vapp

import (
	"encoding/json"
	"fmt"
	"math/big"
	"sort"
	"time"

	ethcommon "github.com/ethereum/go-ethereum/common"
	tmtypes "github.com/tendermint/tendermint/types"

	bitcoin "github.com/Oneledger/protocol/chains/bitcoin"
	ethchain "github.com/Oneledger/protocol/chains/ethereum"
	"github.com/Oneledger/protocol/chains/ethereum/contract"
	"github.com/Oneledger/protocol/config"
	"github.com/Oneledger/protocol/consensus"
	"github.com/Oneledger/protocol/data/balance"
	"github.com/Oneledger/protocol/data/chain"
	"github.com/Oneledger/protocol/data/delegation"
	"github.com/Oneledger/protocol/data/evidence"
	"github.com/Oneledger/protocol/data/fees"
	"github.com/Oneledger/protocol/data/governance"
	"github.com/Oneledger/protocol/data/keys"
	"github.com/Oneledger/protocol/data/network_delegation"
	"github.com/Oneledger/protocol/data/ons"
	"github.com/Oneledger/protocol/data/rewards"
)

// GenesisSpec is the abstract description of a genesis; everything in it is deterministic.
type GenesisSpec struct {
	ChainID      string           `json:"chain_id"`
	OLTDecimal   int64            `json:"olt_decimal"`  // 2 in the small-amount family: 1 OLT = 100 units
	Fork         int64            `json:"fork"`         // FrankensteinBlock; 0 = disabled
	Accounts     []string         `json:"accounts"`     // names; each gets Balance units of OLT
	EthAccounts  []string         `json:"eth_accounts"` // e<N>: secp256k1 accounts with Ethereum-style addresses (OLVM senders), funded like Accounts
	Balance      int64            `json:"balance"`      // units of OLT per account and per stake account
	Validators   []GenValidator   `json:"validators"`   // initial validators with their stake (whole OLT)
	Candidates   []string         `json:"candidates"`   // further validator identities without initial stake
	Witnesses    []string         `json:"witnesses"`    // validator names that are ethereum witnesses
	Staking      StakingOpt       `json:"staking"`
	Evidence     EvidenceOpt      `json:"evidence"`
	Proposal     ProposalOpt      `json:"proposal"`
	Rewards      RewardsOpt       `json:"rewards"`
	Ons          OnsOpt           `json:"ons"`
	RewardPool   int64            `json:"reward_pool"`    // units preloaded into the rewards pool
	MaxGas       int64            `json:"max_gas"`        // consensus param; -1 unlimited
	EthSupplyCap string           `json:"eth_supply_cap"` // wei
	OtherCurr    bool             `json:"other_currencies"`
	Erc20        bool             `json:"erc20"` // register the ERC20 token TTC (wrapped as currency TTC) and give every account EthBalance units of it
	EthBalance   int64            `json:"eth_balance"`
	Claims       map[string]int64 `json:"claims"` // delegation reward claims preloaded at genesis (units) // wrapped ETH units given to every account at genesis (with matching supply counter)
}

type GenValidator struct {
	Name  string `json:"name"`
	Stake int64  `json:"stake"` // whole OLT
}

type StakingOpt struct {
	MinSelf  int64 `json:"min_self"`
	MinDeleg int64 `json:"min_deleg"`
	Top      int64 `json:"top"`
	Maturity int64 `json:"maturity"`
}

type EvidenceOpt struct {
	MinVotesRequired int64 `json:"min_votes"`
	BlockVotesDiff   int64 `json:"block_votes_diff"`
	PenaltyBasePct   int64 `json:"penalty_pct"`
	PenaltyBountyPct int64 `json:"bounty_pct"`
	PenaltyBurnPct   int64 `json:"burn_pct"`
	ReleaseDays      int64 `json:"release_days"`
	VotePct          int64 `json:"vote_pct"`
	AllegationPct    int64 `json:"allegation_pct"`
}

type ProposalOpt struct {
	InitialFunding  int64 `json:"initial_funding"`
	FundingGoal     int64 `json:"funding_goal"`
	FundingDeadline int64 `json:"funding_deadline"`
	VotingDeadline  int64 `json:"voting_deadline"`
	PassPct         int   `json:"pass_pct"`
	NoBurn          bool  `json:"no_burn,omitempty"` // fund distributions without a burnt part
}

type RewardsOpt struct {
	Interval        int64   `json:"interval"`
	SecondsPerCycle int64   `json:"seconds_per_cycle"`
	Cycle           int64   `json:"cycle"`
	YearCloseWindow int64   `json:"year_close_window"`
	YearShares      []int64 `json:"year_shares"`
	Burnout         int64   `json:"burnout"`
}

type OnsOpt struct {
	PerBlock int64 `json:"per_block"`
	Base     int64 `json:"base"`
}

const (
	BountyAddr     = "oneledgerBountyProgram"
	ExecCostConfig = "executionCostConfig"
	ExecCostCode   = "executionCostCodeChange"
	ExecCostGen    = "executionCostGeneral"
	RewardPoolAddr = "rewardpool"
	EthSupplyAddr  = "oneledgerSupplyAddress"
)

var GenesisTime = time.Date(2024, 1, 1, 0, 0, 0, 0, time.UTC)

// LockRedeemContract is the (never deployed) address the embedded ethereum transactions target.
var LockRedeemContract = ethcommon.HexToAddress("0x00000000000000000000000000000000000C0DE1")

// the ERC20 side: the token contract and the lock/redeem contract that holds locked tokens
var TokenContract = ethcommon.HexToAddress("0x00000000000000000000000000000000000070CE")
var ErcLockContract = ethcommon.HexToAddress("0x00000000000000000000000000000000000C0DE2")

// DefaultGenesis is the small-amount genesis family (DESIGN.md section 1): OLT with two decimals.
func DefaultGenesis() GenesisSpec {
	return GenesisSpec{
		ChainID: "verif-chain", OLTDecimal: 2, Fork: 0,
		Accounts: []string{"a1", "a2", "a3"}, Balance: 10000000,
		Validators: []GenValidator{{"v1", 5}, {"v2", 4}},
		Candidates: []string{"v3"},
		Witnesses:  []string{"v1", "v2"},
		Staking:    StakingOpt{MinSelf: 3, MinDeleg: 1, Top: 2, Maturity: 2},
		Evidence:   EvidenceOpt{MinVotesRequired: 2, BlockVotesDiff: 4, PenaltyBasePct: 30, PenaltyBountyPct: 50, PenaltyBurnPct: 50, ReleaseDays: 0, VotePct: 50, AllegationPct: 50},
		Proposal:   ProposalOpt{InitialFunding: 1000, FundingGoal: 5000, FundingDeadline: 4, VotingDeadline: 4, PassPct: 51},
		Rewards:    RewardsOpt{Interval: 3, SecondsPerCycle: 3000000, Cycle: 3, YearCloseWindow: 1000000, YearShares: []int64{600000, 400000}, Burnout: 50},
		Ons:        OnsOpt{PerBlock: 10, Base: 1000},
		RewardPool: 100000000, MaxGas: -1, EthSupplyCap: "2000000000",
		Claims: map[string]int64{"a1": 600, "a2": 400},
	}
}

// AllegGenesis: four active validators, so that allegation votes have a quorum to cross.
func AllegGenesis() GenesisSpec {
	gs := DefaultGenesis()
	gs.Validators = []GenValidator{{"v1", 5}, {"v2", 4}, {"v3", 4}, {"v4", 3}}
	gs.Candidates = nil
	gs.Witnesses = []string{"v1", "v2"}
	gs.Staking.Top = 4
	gs.Evidence.ReleaseDays = 30
	return gs
}

// EthGenesis: four validators that are all ethereum witnesses (threshold 3 of 4); accounts hold
// wrapped ETH so that redeems are possible.
func EthGenesis() GenesisSpec {
	gs := AllegGenesis()
	gs.Witnesses = []string{"v1", "v2", "v3", "v4"}
	gs.EthBalance = 5000
	gs.EthSupplyCap = "100000"
	return gs
}

// OlvmGenesis: the EVM is switched on from block 1 (the Frankenstein fork raises the minimum self
// delegation to 500000 units at that block, so the validators stake more than that); three EVM
// accounts e1..e3 are funded next to the native ones.
func OlvmGenesis() GenesisSpec {
	gs := DefaultGenesis()
	gs.Fork = 1
	gs.Validators = []GenValidator{{"v1", 600000}, {"v2", 500000}}
	gs.EthAccounts = []string{"e1", "e2", "e3", "e4"} // e4 is spent down to exactly zero by the workloads
	return gs
}

// Erc20Genesis: EthGenesis with the ERC20 token TTC registered; the erc20 workloads lock and redeem the token.
func Erc20Genesis() GenesisSpec {
	gs := EthGenesis()
	gs.Erc20 = true
	return gs
}

// EthGenesis5: five witnesses (threshold 4 of 5), a witness count that is not of the form 3f+1.
func EthGenesis5() GenesisSpec {
	gs := EthGenesis()
	gs.Validators = append(gs.Validators, GenValidator{"v5", 3})
	gs.Witnesses = []string{"v1", "v2", "v3", "v4", "v5"}
	gs.Staking.Top = 5
	return gs
}

type Genesis struct {
	Spec       GenesisSpec
	Doc        *config.GenesisDoc
	Accounts   map[string]*Account
	Validators map[string]*ValidatorID
	Names      map[string]string // hex address -> model name
	OLT        balance.Currency
}

func tokenList(gs GenesisSpec) []ethchain.ERC20Token {
	if !gs.Erc20 {
		return []ethchain.ERC20Token{}
	}
	return []ethchain.ERC20Token{{TokName: "TTC", TokAddr: TokenContract, TokAbi: contract.ERC20BasicABI, TokTotalSupply: gs.EthSupplyCap}}
}

func amt(v int64) balance.Amount { return *balance.NewAmountFromInt(v) }

func BuildGenesis(gs GenesisSpec) *Genesis {
	g := &Genesis{Spec: gs, Accounts: map[string]*Account{}, Validators: map[string]*ValidatorID{}, Names: map[string]string{}}
	olt := balance.Currency{Id: 0, Name: "OLT", Chain: chain.ONELEDGER, Decimal: gs.OLTDecimal, Unit: "nue"}
	g.OLT = olt
	currencies := balance.Currencies{olt}
	eth := balance.Currency{Id: 3, Name: "ETH", Chain: chain.ETHEREUM, Decimal: 18, Unit: "wei"}
	vt := balance.Currency{Id: 1, Name: "VT", Chain: chain.ONELEDGER, Unit: "vt"}
	currencies = append(currencies, vt, balance.Currency{Id: 2, Name: "BTC", Chain: chain.BITCOIN, Decimal: 8, Unit: "satoshi"}, eth)
	if gs.Erc20 {
		currencies = append(currencies, balance.Currency{Id: 4, Name: "TTC", Chain: chain.ETHEREUM, Decimal: 18, Unit: "ttc"})
	}

	var balances []consensus.BalanceState
	addAcct := func(a *Account) {
		g.Accounts[a.Name] = a
		g.Names[Hex(a.Addr)] = a.Name
		balances = append(balances, consensus.BalanceState{Address: a.Addr, Currency: "OLT", Amount: amt(gs.Balance)})
		if gs.OtherCurr {
			balances = append(balances, consensus.BalanceState{Address: a.Addr, Currency: "VT", Amount: amt(1000)})
		}
		if gs.EthBalance > 0 {
			balances = append(balances, consensus.BalanceState{Address: a.Addr, Currency: "ETH", Amount: amt(gs.EthBalance)})
			if gs.Erc20 {
				balances = append(balances, consensus.BalanceState{Address: a.Addr, Currency: "TTC", Amount: amt(gs.EthBalance)})
			}
		}
	}
	for _, n := range gs.Accounts {
		addAcct(NewAccount(n))
	}
	for _, n := range gs.EthAccounts {
		e := NewEthAcct(n)
		g.Names[Hex(e.Addr)] = n
		balances = append(balances, consensus.BalanceState{Address: e.Addr, Currency: "OLT", Amount: amt(gs.Balance)})
		for nonce := uint64(0); nonce < 24; nonce++ {
			g.Names[Hex(ContractAddr(e.Addr, nonce))] = fmt.Sprintf("c:%s:%d", n, nonce)
		}
	}
	var staking, witness []consensus.Stake
	var genVals []tmtypes.GenesisValidator
	mkStake := func(v *ValidatorID, amount int64) consensus.Stake {
		return consensus.Stake{
			ValidatorAddress: v.Val.Addr, StakeAddress: v.Stake.Addr, Pubkey: v.Val.Pub,
			ECDSAPubKey: v.EcdsaPK, Name: v.Name, Amount: amt(amount),
		}
	}
	addVal := func(name string) *ValidatorID {
		v := NewValidatorID(name)
		g.Validators[name] = v
		g.Names[Hex(v.Val.Addr)] = name
		addAcct(v.Stake)
		return v
	}
	for _, gv := range gs.Validators {
		v := addVal(gv.Name)
		staking = append(staking, mkStake(v, gv.Stake))
		genVals = append(genVals, tmtypes.GenesisValidator{Address: v.Val.Priv.PubKey().Address(), PubKey: v.Val.Priv.PubKey(), Power: gv.Stake, Name: gv.Name})
	}
	for _, n := range gs.Candidates {
		addVal(n)
	}
	for _, n := range gs.Witnesses {
		witness = append(witness, mkStake(g.Validators[n], 0))
	}
	// strangers: accounts that are not funded at genesis but may appear as recipients or senders
	for _, n := range []string{"n0", "n1", "n2"} {
		a := NewAccount(n)
		g.Accounts[n] = a
		g.Names[Hex(a.Addr)] = n
	}
	if gs.RewardPool > 0 {
		balances = append(balances, consensus.BalanceState{Address: keys.Address(RewardPoolAddr), Currency: "OLT", Amount: amt(gs.RewardPool)})
	}
	if gs.EthBalance > 0 {
		n := int64(len(gs.Accounts) + len(gs.Validators) + len(gs.Candidates))
		balances = append(balances, consensus.BalanceState{Address: keys.Address(EthSupplyAddr), Currency: "ETH", Amount: amt(gs.EthBalance * n)})
		if gs.Erc20 {
			balances = append(balances, consensus.BalanceState{Address: keys.Address(EthSupplyAddr), Currency: "TTC", Amount: amt(gs.EthBalance * n)})
		}
	}
	for _, n := range []string{BountyAddr, ExecCostConfig, ExecCostCode, ExecCostGen, RewardPoolAddr, EthSupplyAddr} {
		g.Names[Hex([]byte(n))] = "pool:" + n
	}
	g.Names[Hex([]byte(network_delegation.DELEGATION_POOL_KEY))] = "pool:delegation"
	g.Names[Hex([]byte(fees.POOL_KEY))] = "pool:fee"

	dist := func(v, f, b, e, bp, p float64) governance.ProposalFundDistribution {
		return governance.ProposalFundDistribution{Validators: v, FeePool: f, Burn: b, ExecutionCost: e, BountyPool: bp, ProposerReward: p}
	}
	passedDist, failedDist := dist(18, 18, 18, 18, 10, 18), dist(10, 10, 10, 20, 50, 0)
	if gs.Proposal.NoBurn { // nothing is burnt: whatever a distribution pays beyond the contributions is new value
		passedDist, failedDist = dist(27, 18, 0, 18, 10, 27), dist(20, 10, 0, 20, 50, 0)
	}
	po := func(cost string) governance.ProposalOption {
		ini, goal := amt(gs.Proposal.InitialFunding), amt(gs.Proposal.FundingGoal)
		return governance.ProposalOption{
			InitialFunding: &ini, FundingGoal: &goal,
			FundingDeadline: gs.Proposal.FundingDeadline, VotingDeadline: gs.Proposal.VotingDeadline,
			PassPercentage:         gs.Proposal.PassPct,
			PassedFundDistribution: passedDist,
			FailedFundDistribution: failedDist,
			ProposalExecutionCost:  cost,
		}
	}
	shares := []balance.Amount{}
	for _, s := range gs.Rewards.YearShares {
		shares = append(shares, amt(s))
	}
	gov := governance.GovernanceState{
		FeeOption: fees.FeeOption{FeeCurrency: olt, MinFeeDecimal: gs.OLTDecimal},
		ETHCDOption: ethchain.ChainDriverOption{
			ContractABI: contract.LockRedeemABI, ERCContractABI: contract.LockRedeemERCABI, TokenList: tokenList(gs), ERCContractAddress: ErcLockContract,
			ContractAddress: LockRedeemContract, TotalSupply: gs.EthSupplyCap, TotalSupplyAddr: EthSupplyAddr, BlockConfirmation: 12,
		},
		BTCCDOption: bitcoin.ChainDriverOption{ChainType: "testnet3", TotalSupply: "1000000000", TotalSupplyAddr: EthSupplyAddr, BlockConfirmation: 6},
		ONSOptions:  ons.Options{Currency: "OLT", PerBlockFees: amt(gs.Ons.PerBlock), FirstLevelDomains: []string{"ol"}, BaseDomainPrice: amt(gs.Ons.Base)},
		PropOptions: governance.ProposalOptionSet{ConfigUpdate: po(ExecCostConfig), CodeChange: po(ExecCostCode), General: po(ExecCostGen), BountyProgramAddr: BountyAddr},
		StakingOptions: delegation.Options{
			MinSelfDelegationAmount: amt(gs.Staking.MinSelf), MinDelegationAmount: amt(gs.Staking.MinDeleg),
			TopValidatorCount: gs.Staking.Top, MaturityTime: gs.Staking.Maturity,
		},
		DelegOptions: network_delegation.Options{RewardsMaturityTime: network_delegation.RewardsMaturityTime},
		EvidenceOptions: evidence.Options{
			MinVotesRequired: gs.Evidence.MinVotesRequired, BlockVotesDiff: gs.Evidence.BlockVotesDiff,
			PenaltyBasePercentage: gs.Evidence.PenaltyBasePct, PenaltyBaseDecimals: 100,
			PenaltyBountyPercentage: gs.Evidence.PenaltyBountyPct, PenaltyBountyDecimals: 100,
			PenaltyBurnPercentage: gs.Evidence.PenaltyBurnPct, PenaltyBurnDecimals: 100,
			ValidatorReleaseTime: gs.Evidence.ReleaseDays, ValidatorVotePercentage: gs.Evidence.VotePct, ValidatorVoteDecimals: 100,
			AllegationPercentage: gs.Evidence.AllegationPct, AllegationDecimals: 100,
		},
		RewardOptions: rewards.Options{
			RewardInterval: gs.Rewards.Interval, RewardPoolAddress: RewardPoolAddr, RewardCurrency: "OLT",
			EstimatedSecondsPerCycle: gs.Rewards.SecondsPerCycle, BlockSpeedCalculateCycle: gs.Rewards.Cycle,
			YearCloseWindow: gs.Rewards.YearCloseWindow, YearBlockRewardShares: shares, BurnoutRate: amt(gs.Rewards.Burnout),
		},
	}
	state := consensus.AppState{
		Currencies: currencies, Governance: gov, Balances: balances, Staking: staking, Witness: witness,
		Rewards: rewards.RewardMasterState{RewardState: rewards.NewRewardState(), CumuState: rewards.NewRewardCumuState()},
		Domains: []consensus.DomainState{}, Fees: []consensus.BalanceState{},
	}
	var cn []string
	for n := range gs.Claims {
		cn = append(cn, n)
	}
	sort.Strings(cn)
	for _, n := range cn {
		a := amt(gs.Claims[n])
		state.DelegatorRew.BalanceList = append(state.DelegatorRew.BalanceList, network_delegation.Reward{Amount: &a, Address: g.Acct(n).Addr})
	}
	raw, err := state.RawJSON()
	if err != nil {
		panic(err)
	}
	cp := tmtypes.DefaultConsensusParams()
	cp.Block.MaxGas = gs.MaxGas
	g.Doc = &config.GenesisDoc{
		GenesisTime: GenesisTime, ChainID: gs.ChainID, ConsensusParams: cp, Validators: genVals,
		AppState: json.RawMessage(raw), ForkParams: &config.ForkParams{FrankensteinBlock: gs.Fork},
	}
	return g
}

// Name returns the model name of an address (hex of the raw bytes), or "x:<hex>".
func (g *Genesis) Name(addr []byte) string {
	if n, ok := g.Names[Hex(addr)]; ok {
		return n
	}
	return "x:" + Hex(addr)
}

func (g *Genesis) Acct(name string) *Account {
	if a, ok := g.Accounts[name]; ok {
		return a
	}
	if v, ok := g.Validators[name]; ok {
		return v.Val
	}
	// strangers: deterministic accounts that are not in the genesis
	a := NewAccount(name)
	g.Accounts[name] = a
	g.Names[Hex(a.Addr)] = name
	return a
}

var bigZero = big.NewInt(0)
