package vapp

import (
	"crypto/ecdsa"
	"regexp"
	"strconv"
	"strings"

	"github.com/Oneledger/protocol/data/keys"
	ethcmn "github.com/ethereum/go-ethereum/common"
	ethcrypto "github.com/ethereum/go-ethereum/crypto"
)

// EthAcct is an externally owned account of the EVM side: a secp256k1 key whose address is
// derived the Ethereum way (OLVM transactions are signed with it).
type EthAcct struct {
	Name string
	Priv *ecdsa.PrivateKey
	Addr keys.Address
}

var reEthName = regexp.MustCompile(`^e[0-9]+$`)
var reContractName = regexp.MustCompile(`^c:(e[0-9]+):([0-9]+)$`)

func NewEthAcct(name string) *EthAcct {
	priv, err := ethcrypto.ToECDSA(secret("eth", name))
	if err != nil {
		panic(err)
	}
	return &EthAcct{Name: name, Priv: priv, Addr: keys.Address(ethcrypto.PubkeyToAddress(priv.PublicKey).Bytes())}
}

// ContractAddr is the address of the contract created by an account with a given nonce.
func ContractAddr(creator keys.Address, nonce uint64) keys.Address {
	return keys.Address(ethcrypto.CreateAddress(ethcmn.BytesToAddress(creator), nonce).Bytes())
}

// ethAddr resolves the model names of the EVM side: e<N> and c:<creator>:<nonce>.
func ethAddr(name string) (keys.Address, bool) {
	if reEthName.MatchString(name) {
		return NewEthAcct(name).Addr, true
	}
	if m := reContractName.FindStringSubmatch(name); m != nil {
		n, _ := strconv.ParseUint(m[2], 10, 64)
		return ContractAddr(NewEthAcct(m[1]).Addr, n), true
	}
	return nil, false
}

func isEthName(name string) bool { return reEthName.MatchString(name) || strings.HasPrefix(name, "c:") }
