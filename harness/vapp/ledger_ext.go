package vapp

import "fmt"

// allowWrapped: wrapped-currency allowance of a block: locks and failed-redeem refunds that
// reached witness finality in it (the tracker completed in this block).
func (b *BlockRecord) allowWrapped(prev *AbsState) map[string]int64 {
	out := map[string]int64{}
	if b.State == nil {
		return out
	}
	now, _ := ethTrk(b.State)
	before, _ := ethTrk(prev)
	for n, t := range now {
		p, existed := before[n]
		completed := func(x EthTrk) bool { return x.Store != "ongoing" || x.Done }
		if !completed(t) || (existed && completed(p)) {
			continue
		}
		yes := 0
		for _, v := range t.Votes {
			if v == 1 {
				yes++
			}
		}
		success := t.Store == "passed" || (t.Store == "ongoing" && yes >= len(t.Wits)*2/3+1)
		if (t.Type == "lock" && success) || (t.Type == "redeem" && !success) {
			out["ETH"] += t.Amt
		}
	}
	return out
}

var _ = fmt.Sprint
