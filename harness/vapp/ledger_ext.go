package vapp

import "fmt"

// allowWrapped: wrapped-currency allowance of a block: locks and failed-redeem refunds that
// reached witness finality in it (the tracker completed in this block).
func (b *BlockRecord) allowWrapped(prev *AbsState, cur string) map[string]int64 {
	out := map[string]int64{}
	if b.State == nil {
		return out
	}
	now, _ := ethTrk(b.State)
	before, _ := ethTrk(prev)
	for n, t := range now {
		p, existed := before[n]
		completed := func(x EthTrk) bool { return x.Store != "ongoing" || x.Done }
		if !completed(t) || (existed && completed(p)) {
			continue
		}
		// witness finality is judged on the votes: those recorded before the block plus the
		// reports accepted in it (a settled record no longer carries its votes)
		votes := append([]int64{}, p.Votes...)
		wits := p.Wits
		if !existed || len(wits) == 0 {
			wits = b.witnessOrder
			votes = make([]int64, len(wits))
		}
		for _, tx := range b.Txs {
			if !accepted(tx) || tx.Req.Kind != "ETH_REPORT" {
				continue
			}
			if ExtKey(tx.Req.S("tkind"), tx.Req.S("towner"), tx.Req.I("tamt"), tx.Req.I("tn")) != n {
				continue
			}
			idx := tx.Req.I("idx")
			if _, given := tx.Req.A["idx"]; !given {
				idx = -1
				for i, w := range wits {
					if w == tx.Req.S("by") {
						idx = int64(i)
					}
				}
			}
			if idx >= 0 && int(idx) < len(wits) && wits[idx] == tx.Req.S("by") && votes[idx] == 0 {
				if tx.Req.I("ok") != 0 {
					votes[idx] = 1
				} else {
					votes[idx] = 2
				}
			}
		}
		yes, no := 0, 0
		for _, v := range votes {
			if v == 1 {
				yes++
			} else if v == 2 {
				no++
			}
		}
		th := len(wits)*2/3 + 1
		if (t.Type == "lock" && yes >= th) || (t.Type == "redeem" && no >= th) {
			out[cur] += t.Amt // the wrapped currency of the side the workload is on (ETH, or the token's)
		}
	}
	return out
}

var _ = fmt.Sprint
