package vapp

// allowWrapped: wrapped-currency allowance of a block (locks / failed-redeem refunds that
// reached witness finality in it); filled in with the tracker subsystem.
func (b *BlockRecord) allowWrapped(prev *AbsState) map[string]int64 { return nil }
