package vapp

import (
	"encoding/json"
	"math/big"
	"regexp"
	"sort"
	"strconv"
	"strings"
)

// AbsState is the projection of the committed tree onto the specifications' variables
// (the refinement mapping).  Owners are model names ("a1", "sv1", "pool:fee", ...);
// amounts are integers below 2^30 (DESIGN.md section 1); anything negative or larger is
// clamped and listed in Bad.
type AbsState struct {
	Bal        map[string]map[string]int64   `json:"bal"`        // owner -> currency -> units
	FeePool    int64                         `json:"feePool"`    // f_00..0
	FeeShare   map[string]int64              `json:"feeShare"`   // validator stake owner -> units
	StakeTot   map[string]int64              `json:"stakeTot"`   // validator -> whole OLT (st__t_)
	StakeEff   map[string]map[string]int64   `json:"stakeEff"`   // validator -> delegator -> whole OLT (st__e_)
	StakeDE    map[string]int64              `json:"stakeDE"`    // delegator -> whole OLT (st__d_e_)
	Bounded    map[string]int64              `json:"bounded"`    // delegator -> whole OLT (st__d_b_)
	Maturing   map[string]map[string]int64   `json:"maturing"`   // height -> delegator -> whole OLT (st__m_)
	Vals       map[string]ValRec             `json:"vals"`       // validator records (v_)
	Purged     map[string]int64              `json:"purged"`     // validator -> last purge height
	Delayed    map[string]map[string]int64   `json:"delayed"`    // height -> validator -> delayed unstake amount
	Witness    []string                      `json:"witness"`    // ethereum witnesses
	DelegAct   map[string]int64              `json:"delegAct"`   // delegator -> units (deleg_a_)
	DelegPend  map[string]map[string]int64   `json:"delegPend"`  // height -> delegator -> units (deleg_p_)
	DelegRw    map[string]int64              `json:"delegRw"`    // delegator -> reward claim (delegRwz_balance_)
	DelegRwP   map[string]map[string]int64   `json:"delegRwP"`   // height -> delegator -> pending reward withdrawal
	DelegRwTot int64                         `json:"delegRwTot"` // delegRwz_total_rewards
	RwChunk    map[string]map[string]int64   `json:"rwChunk"`    // validator -> chunk -> units (rwz_)
	RwBal      map[string]int64              `json:"rwBal"`      // validator -> matured balance (rwcum_balance_)
	RwWd       map[string]int64              `json:"rwWd"`       // validator -> withdrawn (rwcum_withdrawn_)
	RwTDist    int64                         `json:"rwTDist"`
	RwYears    []YearRec                     `json:"rwYears"`
	Status     map[string]StatusRec          `json:"status"` // es__vss_
	Frozen     map[string]FrozenRec          `json:"frozen"` // es__ssvk_
	Requests   map[string]ReqRec             `json:"requests"`
	ReqTracker []string                      `json:"reqTracker"`
	CumVotes   map[string]int64              `json:"cumVotes"`
	Props      map[string]PropRec            `json:"props"`
	PropFunds  map[string]map[string]int64   `json:"propFunds"` // proposal -> funder -> units
	PropFundT  map[string]int64              `json:"propFundT"`
	PropVotes  map[string]map[string]VoteRec `json:"propVotes"`
	Opts       map[string]json.RawMessage    `json:"opts,omitempty"` // current option records by name
	Trackers   map[string]TrackerRec         `json:"trackers"`
	Domains    map[string]DomRec             `json:"domains"`
	Bids       map[string]BidRec             `json:"bids,omitempty"` // conversation id -> record and active offer (bid application)
	Nonce      map[string]int64              `json:"nonce"`          // keeper_ sequence
	Code       map[string]int64              `json:"code"`           // 1 when the account's keeper record carries a non-empty code hash
	EvmStore   map[string]map[string]string  `json:"evmStore"`       // contract -> slot (hex) -> value (hex)
	EvmCode    map[string]int64              `json:"evmCode"`        // code hash (hex) -> code length
	Bad        []string                      `json:"bad"`            // amounts that are negative or >= 2^30, with their keys
	Unknown    []string                      `json:"unknown"`
	Other      map[string]string             `json:"other,omitempty"`
}

type ValRec struct {
	Power   int64  `json:"power"`
	Staking int64  `json:"staking"`
	Stake   string `json:"stakeAddr"`
	PubKey  string `json:"pk"`
}
type YearRec struct {
	Start int64 `json:"start"` // seconds since genesis time
	Close int64 `json:"close"`
	Dist  int64 `json:"dist"`
	Till  int64 `json:"till"`
}
type StatusRec struct {
	Active bool  `json:"active"`
	Height int64 `json:"h"`
}
type FrozenRec struct {
	Status   int64 `json:"status"`
	Height   int64 `json:"h"`
	At       int64 `json:"at"`       // seconds since genesis
	Released int64 `json:"released"` // release time, seconds since genesis; -1 = never
	IsFrozen bool  `json:"isFrozen"`
}
type ReqRec struct {
	Reporter string           `json:"reporter"`
	Accused  string           `json:"accused"`
	Status   int64            `json:"status"`
	Votes    map[string]int64 `json:"votes"`
	Order    []string         `json:"order"`
}
type PropRec struct {
	Store    string `json:"store"`
	Type     int64  `json:"type"`
	Status   int64  `json:"status"`
	Outcome  int64  `json:"outcome"`
	Proposer string `json:"proposer"`
	FundDL   int64  `json:"fundDL"`
	VoteDL   int64  `json:"voteDL"`
	Goal     int64  `json:"goal"`
	PassPct  int64  `json:"passPct"`
	Update   string `json:"update"`
}
type VoteRec struct {
	Opinion int64 `json:"op"`
	Power   int64 `json:"power"`
}
type TrackerRec struct {
	Store string   `json:"store"`
	Type  int64    `json:"type"`
	State int64    `json:"state"`
	Owner string   `json:"owner"`
	Wits  []string `json:"wits"`
	Votes []int64  `json:"votes"`
}

const Lim = int64(1) << 30

var (
	reAddr = `0lt([0-9a-f]*)`
	reBal  = regexp.MustCompile(`^b_` + reAddr + `_(\w+)$`)
	reStT  = regexp.MustCompile(`^st__t_` + reAddr + `$`)
	reStE  = regexp.MustCompile(`^st__e_` + reAddr + `_` + reAddr + `$`)
	reStDE = regexp.MustCompile(`^st__d_e_` + reAddr + `$`)
	reStDB = regexp.MustCompile(`^st__d_b_` + reAddr + `$`)
	reStM  = regexp.MustCompile(`^st__m_(\d+)$`)
	reDA   = regexp.MustCompile(`^deleg_a_` + reAddr + `$`)
	reDP   = regexp.MustCompile(`^deleg_p_(\d+)_` + reAddr + `$`)
	reDRB  = regexp.MustCompile(`^delegRwz_balance_` + reAddr + `$`)
	reDRP  = regexp.MustCompile(`^delegRwz_pending_(\d+)_` + reAddr + `$`)
	reRwz  = regexp.MustCompile(`^rwz_` + reAddr + `_(\d+)$`)
	reRwB  = regexp.MustCompile(`^rwcum_balance_` + reAddr + `$`)
	reRwW  = regexp.MustCompile(`^rwcum_withdrawn_` + reAddr + `$`)
	reVss  = regexp.MustCompile(`^es__vss_` + reAddr + `$`)
	reSsvk = regexp.MustCompile(`^es__ssvk_` + reAddr + `$`)
	reArk  = regexp.MustCompile(`^es__ark_(.*)$`)
)

type projector struct {
	g *Genesis
	s *AbsState
}

func (p *projector) name(hexaddr string) string {
	if n, ok := p.g.Names[hexaddr]; ok {
		return n
	}
	return "x:" + hexaddr
}

func (p *projector) nameOf0lt(s string) string { return p.name(strings.TrimPrefix(s, "0lt")) }

// num parses a quoted or plain decimal and clamps it; out-of-range values are recorded.
func (p *projector) num(key string, raw []byte) int64 {
	s := strings.Trim(string(raw), "\"")
	if s == "" {
		return 0
	}
	b, ok := new(big.Int).SetString(s, 10)
	if !ok {
		p.s.Bad = append(p.s.Bad, key+":unparsable")
		return 0
	}
	return p.clamp(key, b)
}

func (p *projector) clamp(key string, b *big.Int) int64 {
	if b.Sign() < 0 {
		p.s.Bad = append(p.s.Bad, key+":negative")
		if b.IsInt64() && b.Int64() > -Lim {
			return b.Int64()
		}
		return -(Lim - 1)
	}
	if !b.IsInt64() || b.Int64() >= Lim {
		p.s.Bad = append(p.s.Bad, key+":huge")
		return Lim - 1
	}
	return b.Int64()
}

func mm(m map[string]map[string]int64, a, b string, v int64) {
	if m[a] == nil {
		m[a] = map[string]int64{}
	}
	m[a][b] = v
}

// coinAmount decodes a persisted balance.Coin: {"currency":{...},"amount":"<base64 of quoted decimal>"}
func (p *projector) coinAmount(key string, raw []byte) int64 {
	var c struct {
		Amount json.RawMessage `json:"amount"`
	}
	if err := json.Unmarshal(raw, &c); err != nil {
		p.s.Bad = append(p.s.Bad, key+":unparsable")
		return 0
	}
	var bs []byte
	if err := json.Unmarshal(c.Amount, &bs); err == nil {
		return p.num(key, bs)
	}
	return p.num(key, c.Amount)
}

func (r *Replica) Project() *AbsState {
	return ProjectDump(r.G, r.Dump())
}

func ProjectDump(g *Genesis, dump []KV) *AbsState {
	s := &AbsState{
		Bal: map[string]map[string]int64{}, FeeShare: map[string]int64{}, StakeTot: map[string]int64{},
		StakeEff: map[string]map[string]int64{}, StakeDE: map[string]int64{}, Bounded: map[string]int64{},
		Maturing: map[string]map[string]int64{}, Vals: map[string]ValRec{}, Purged: map[string]int64{},
		Delayed: map[string]map[string]int64{}, DelegAct: map[string]int64{}, DelegPend: map[string]map[string]int64{},
		DelegRw: map[string]int64{}, DelegRwP: map[string]map[string]int64{}, RwChunk: map[string]map[string]int64{},
		RwBal: map[string]int64{}, RwWd: map[string]int64{}, Status: map[string]StatusRec{}, Frozen: map[string]FrozenRec{},
		Requests: map[string]ReqRec{}, CumVotes: map[string]int64{}, Props: map[string]PropRec{},
		PropFunds: map[string]map[string]int64{}, PropFundT: map[string]int64{}, PropVotes: map[string]map[string]VoteRec{},
		Trackers: map[string]TrackerRec{}, Domains: map[string]DomRec{}, Bids: map[string]BidRec{}, Nonce: map[string]int64{}, Code: map[string]int64{}, EvmStore: map[string]map[string]string{}, EvmCode: map[string]int64{},
		Bad: []string{}, Unknown: []string{}, Witness: []string{}, ReqTracker: []string{}, RwYears: []YearRec{},
		Opts: map[string]json.RawMessage{},
	}
	p := &projector{g: g, s: s}
	for _, kv := range dump {
		k := string(kv.K)
		v := kv.V
		switch {
		case strings.HasPrefix(k, "b_"):
			if m := reBal.FindStringSubmatch(k); m != nil {
				mm(s.Bal, p.name(m[1]), m[2], p.num(k, v))
			} else {
				s.Unknown = append(s.Unknown, k)
			}
		case strings.HasPrefix(k, "f_"):
			raw := kv.K[2:]
			if string(raw) == "00000000000000000000" {
				s.FeePool = p.num("feePool", v)
			} else {
				s.FeeShare[p.name(Hex(raw))] = p.num("feeShare:"+Hex(raw), v)
			}
		case strings.HasPrefix(k, "st__"):
			p.stake(k, v)
		case strings.HasPrefix(k, "v_"):
			p.validator(kv.K[2:], v)
		case strings.HasPrefix(k, "purged_unstake_"):
			p.delayed(kv.K[len("purged_unstake_"):], v)
		case strings.HasPrefix(k, "purged_"):
			n, _ := strconv.ParseInt(strings.Trim(string(v), "\""), 10, 64)
			s.Purged[p.name(Hex(kv.K[len("purged_"):]))] = n
		case strings.HasPrefix(k, "w_"):
			parts := strings.SplitN(k, "_", 3)
			if len(parts) == 3 {
				s.Witness = append(s.Witness, p.name(Hex([]byte(parts[2]))))
			}
		case strings.HasPrefix(k, "deleg_") || strings.HasPrefix(k, "delegRwz_"):
			p.deleg(k, v)
		case strings.HasPrefix(k, "rwz_") || strings.HasPrefix(k, "rwcum_") || strings.HasPrefix(k, "rwaddr_") || strings.HasPrefix(k, "ri_"):
			p.rewards(k, v)
		case strings.HasPrefix(k, "es__"):
			p.evidence(k, v)
		case strings.HasPrefix(k, "g_"):
			p.govern(kv.K, v)
		default:
			if !p.ext(kv.K, v) {
				s.Unknown = append(s.Unknown, k)
			}
		}
	}
	sort.Strings(s.Witness)
	sort.Strings(s.Bad)
	return s
}

func (p *projector) stake(k string, v []byte) {
	s := p.s
	if m := reStT.FindStringSubmatch(k); m != nil {
		s.StakeTot[p.name(m[1])] = p.num(k, v)
	} else if m := reStE.FindStringSubmatch(k); m != nil {
		mm(s.StakeEff, p.name(m[1]), p.name(m[2]), p.num(k, v))
	} else if m := reStDE.FindStringSubmatch(k); m != nil {
		s.StakeDE[p.name(m[1])] = p.num(k, v)
	} else if m := reStDB.FindStringSubmatch(k); m != nil {
		s.Bounded[p.name(m[1])] = p.num(k, v)
	} else if m := reStM.FindStringSubmatch(k); m != nil {
		var mb struct {
			Height int64
			Data   []struct {
				Address string
				Amount  json.RawMessage
				Height  int64
			}
		}
		if err := json.Unmarshal(v, &mb); err != nil {
			s.Bad = append(s.Bad, k+":unparsable")
			return
		}
		for _, d := range mb.Data {
			a := p.nameOf0lt(d.Address)
			old := int64(0)
			if s.Maturing[m[1]] != nil {
				old = s.Maturing[m[1]][a]
			}
			mm(s.Maturing, m[1], a, old+p.num(k, d.Amount))
		}
	} else {
		s.Unknown = append(s.Unknown, k)
	}
}

func (p *projector) validator(addr []byte, v []byte) {
	var r struct {
		StakeAddress string `json:"stakeAddress"`
		PubKey       struct {
			Data []byte `json:"data"`
		} `json:"pubKey"`
		Power   int64           `json:"power"`
		Staking json.RawMessage `json:"staking"`
	}
	n := p.name(Hex(addr))
	if err := json.Unmarshal(v, &r); err != nil {
		p.s.Bad = append(p.s.Bad, "v_"+n+":unparsable")
		return
	}
	pw := r.Power
	if pw >= Lim || pw <= -Lim {
		p.s.Bad = append(p.s.Bad, "v_"+n+":power-huge")
		pw = Lim - 1
	}
	p.s.Vals[n] = ValRec{Power: pw, Staking: p.num("v_"+n+".staking", r.Staking), Stake: p.nameOf0lt(r.StakeAddress), PubKey: Hex(r.PubKey.Data)}
}

func (p *projector) delayed(rest []byte, v []byte) {
	// key = purged_unstake_<height decimal><raw 20-byte address>
	if len(rest) < 20 {
		p.s.Unknown = append(p.s.Unknown, "purged_unstake_"+Hex(rest))
		return
	}
	h := string(rest[:len(rest)-20])
	addr := rest[len(rest)-20:]
	var r struct {
		Amount json.RawMessage `json:"amount"`
	}
	val := int64(0)
	if err := json.Unmarshal(v, &r); err == nil && r.Amount != nil {
		val = p.num("delayed", r.Amount)
	} else {
		val = p.num("delayed", v)
	}
	mm(p.s.Delayed, h, p.name(Hex(addr)), val)
}

func (p *projector) deleg(k string, v []byte) {
	s := p.s
	if m := reDA.FindStringSubmatch(k); m != nil {
		s.DelegAct[p.name(m[1])] = p.coinAmount(k, v)
	} else if m := reDP.FindStringSubmatch(k); m != nil {
		mm(s.DelegPend, m[1], p.name(m[2]), p.coinAmount(k, v))
	} else if m := reDRB.FindStringSubmatch(k); m != nil {
		s.DelegRw[p.name(m[1])] = p.num(k, v)
	} else if m := reDRP.FindStringSubmatch(k); m != nil {
		mm(s.DelegRwP, m[1], p.name(m[2]), p.num(k, v))
	} else if k == "delegRwz_total_rewards" {
		s.DelegRwTot = p.num(k, v)
	} else {
		s.Unknown = append(s.Unknown, k)
	}
}

func (p *projector) rewards(k string, v []byte) {
	s := p.s
	if m := reRwz.FindStringSubmatch(k); m != nil {
		mm(s.RwChunk, p.name(m[1]), m[2], p.num(k, v))
	} else if m := reRwB.FindStringSubmatch(k); m != nil {
		s.RwBal[p.name(m[1])] = p.num(k, v)
	} else if m := reRwW.FindStringSubmatch(k); m != nil {
		s.RwWd[p.name(m[1])] = p.num(k, v)
	} else if k == "rwcum_tdist" {
		s.RwTDist = p.num(k, v)
	} else if k == "rwcum_ydist" {
		var y struct {
			Years []struct {
				StartTime, CloseTime string
				Distributed          json.RawMessage
				TillLastCycle        json.RawMessage
			}
		}
		if err := json.Unmarshal(v, &y); err == nil {
			for _, yr := range y.Years {
				s.RwYears = append(s.RwYears, YearRec{Start: secs(yr.StartTime), Close: secs(yr.CloseTime),
					Dist: p.num(k, yr.Distributed), Till: p.num(k, yr.TillLastCycle)})
			}
		}
	} else if strings.HasPrefix(k, "rwaddr_") || strings.HasPrefix(k, "ri_") {
		// bookkeeping of the reward store (address list, interval table): not value-bearing
	} else {
		s.Unknown = append(s.Unknown, k)
	}
}

func (p *projector) evidence(k string, v []byte) {
	s := p.s
	if m := reVss.FindStringSubmatch(k); m != nil {
		var r struct {
			IsActive bool  `json:"isActive"`
			Height   int64 `json:"height"`
		}
		_ = json.Unmarshal(v, &r)
		s.Status[p.name(m[1])] = StatusRec{Active: r.IsActive, Height: r.Height}
	} else if k == "es__scv" {
		var r struct{ Addresses map[string]int64 }
		_ = json.Unmarshal(v, &r)
		for a, n := range r.Addresses {
			s.CumVotes[p.nameOf0lt(a)] = n
		}
	} else if strings.HasPrefix(k, "es__svb_") {
		// per-height vote blocks: input echo, not projected
	} else if !p.evidenceExt(k, v) {
		s.Unknown = append(s.Unknown, k)
	}
}

func (p *projector) govern(k []byte, v []byte) {
	// g_<rune(height)>_<option> records and g_<name>_defaultOptions (last update heights)
	ks := string(k)
	if strings.HasSuffix(ks, "_defaultOptions") || ks == "g_heightindependent_initial" {
		return
	}
	i := strings.LastIndex(ks, "_")
	if i > 1 {
		name := ks[i+1:]
		// the record at the highest height wins (keys are iterated in order)
		if name != "ethcdopt" && name != "btccdopt" {
			p.s.Opts[name] = json.RawMessage(v)
		}
	}
}

func secs(ts string) int64 {
	t, err := parseTime(ts)
	if err != nil {
		return -1
	}
	return int64(t.Sub(GenesisTime).Seconds())
}
