package vapp

var EthKinds = []string{"ETH_LOCK", "ETH_LOCK", "ETH_REDEEM", "ETH_REPORT", "ETH_REPORT", "ETH_REPORT", "ETH_REPORT", "ETH_REPORT", "ETH_REPORT", "SEND"}

// the external transactions a history talks about: a small fixed pool so that reports find
// their trackers and duplicates occur
type extTx struct {
	kind  string
	owner string
	amt   int64
	n     int64
}

var extPool = []extTx{{"lock", "a1", 700, 1}, {"lock", "a2", 1200, 1}, {"lock", "a1", 700, 2}, {"redeem", "a2", 900, 1}, {"redeem", "a3", 400, 1}, {"redeem", "a1", 6000, 1}}

func (g *Gen) txEth(kind string, hostile bool) STx {
	t := TxReq{Kind: kind}
	x := extPool[g.R.Intn(len(extPool))]
	switch kind {
	case "ETH_LOCK":
		for x.kind != "lock" {
			x = extPool[g.R.Intn(len(extPool))]
		}
		owner := x.owner
		t.A = A{"owner": owner, "amt": x.amt, "n": x.n}
	case "ETH_REDEEM":
		for x.kind != "redeem" {
			x = extPool[g.R.Intn(len(extPool))]
		}
		t.A = A{"owner": x.owner, "amt": x.amt, "n": x.n}
	case "ETH_REPORT":
		by := g.pick(g.vals)
		if g.R.Intn(7) == 0 {
			by = g.pick(g.accts) // an outsider reports
		}
		okv := 1
		if g.R.Intn(3) == 0 {
			okv = 0
		}
		locker := x.owner
		if g.R.Intn(4) == 0 {
			locker = g.pick(g.accts) // a witness lies about the beneficiary
		}
		t.A = A{"tkind": x.kind, "towner": x.owner, "tamt": x.amt, "tn": x.n, "by": by, "ok": okv, "locker": locker}
		switch g.R.Intn(10) {
		case 0:
			t.A["idx"] = g.R.Intn(6) // a wrong (or out of range) index
		case 1:
			t.A["idx"] = 4
		}
	case "OLVM":
		// a free-standing OLVM request (mempool pools, mutation bases): a transfer or a call with a low sequence number
		eo := g.G.EthAccounts
		if len(eo) == 0 {
			eo = []string{"e1", "e2"}
		}
		f := g.pick(eo)
		to := g.pick(append(append([]string{}, eo...), g.accts...))
		t.A = A{"from": f, "to": to, "amt": g.rng(0, 500), "nonce": g.R.Intn(4), "data": ""}
		t.Gas = 120000
		return STx{Req: t, Path: "honest"}
	default:
		panic("unknown kind " + kind)
	}
	if hostile && kind == "ETH_LOCK" && g.R.Intn(3) == 0 {
		// the embedded ethereum transaction is a contract creation: it has no recipient (only for locks: a redeem does not
		// look at the recipient, and such a request would be a second external transaction under the same model name)
		t.A["noto"] = 1
		g.hclass, g.class = "", "eth:no-recipient"
	}
	if g.G.Erc20 && (kind == "ETH_LOCK" || kind == "ETH_REDEEM" || kind == "ETH_REPORT") {
		t.A["erc"] = 1 // the ERC20 side: token transfers and the token's wrapped currency
	}
	return g.finish(t, hostile && g.hclass != "amt" && g.hclass != "cur")
}

func familyEth(family, id string, g *Gen, blocks, maxTx int) *Scenario {
	switch family {
	case "eth", "eth5", "erc20":
		g.Hostile = 0.1
		return g.Mixed(id, blocks, maxTx+2, EthKinds)
	}
	return nil
}
