package vapp

import "sort"

var EthKinds = []string{"ETH_LOCK", "ETH_LOCK", "ETH_REDEEM", "ETH_REPORT", "ETH_REPORT", "ETH_REPORT", "ETH_REPORT", "ETH_REPORT", "ETH_REPORT", "SEND"}

// the external transactions a history talks about: a small fixed pool so that reports find
// their trackers and duplicates occur
type extTx struct {
	kind  string
	owner string
	amt   int64
	n     int64
}

var extPool = []extTx{{"lock", "a1", 700, 1}, {"lock", "a2", 1200, 1}, {"lock", "a1", 700, 2}, {"redeem", "a2", 900, 1}, {"redeem", "a3", 400, 1}, {"redeem", "a1", 6000, 1}}

func (g *Gen) txEth(kind string, hostile bool) STx {
	t := TxReq{Kind: kind}
	x := extPool[g.R.Intn(len(extPool))]
	switch kind {
	case "ETH_LOCK":
		for x.kind != "lock" {
			x = extPool[g.R.Intn(len(extPool))]
		}
		owner := x.owner
		t.A = A{"owner": owner, "amt": x.amt, "n": x.n}
	case "ETH_REDEEM":
		for x.kind != "redeem" {
			x = extPool[g.R.Intn(len(extPool))]
		}
		t.A = A{"owner": x.owner, "amt": x.amt, "n": x.n}
	case "ETH_REPORT":
		by := g.pick(g.vals)
		if g.R.Intn(7) == 0 {
			by = g.pick(g.accts) // an outsider reports
		}
		okv := 1
		if g.R.Intn(3) == 0 {
			okv = 0
		}
		locker := x.owner
		if g.R.Intn(4) == 0 {
			locker = g.pick(g.accts) // a witness lies about the beneficiary
		}
		t.A = A{"tkind": x.kind, "towner": x.owner, "tamt": x.amt, "tn": x.n, "by": by, "ok": okv, "locker": locker}
		switch g.R.Intn(10) {
		case 0:
			t.A["idx"] = g.R.Intn(6) // a wrong (or out of range) index
		case 1:
			t.A["idx"] = 4
		}
	case "OLVM":
		// a free-standing OLVM request (mempool pools, mutation bases): a transfer or a call with a low sequence number
		eo := g.G.EthAccounts
		if len(eo) == 0 {
			eo = []string{"e1", "e2"}
		}
		f := g.pick(eo)
		to := g.pick(append(append([]string{}, eo...), g.accts...))
		t.A = A{"from": f, "to": to, "amt": g.rng(0, 500), "nonce": g.R.Intn(4), "data": ""}
		t.Gas = 120000
		return STx{Req: t, Path: "honest"}
	default:
		panic("unknown kind " + kind)
	}
	if hostile && kind == "ETH_LOCK" && g.R.Intn(3) == 0 {
		// the embedded ethereum transaction is a contract creation: it has no recipient (only for locks: a redeem does not
		// look at the recipient, and such a request would be a second external transaction under the same model name)
		t.A["noto"] = 1
		g.hclass, g.class = "", "eth:no-recipient"
	}
	if g.G.Erc20 && (kind == "ETH_LOCK" || kind == "ETH_REDEEM" || kind == "ETH_REPORT") {
		t.A["erc"] = 1 // the ERC20 side: token transfers and the token's wrapped currency
	}
	return g.finish(t, hostile && g.hclass != "amt" && g.hclass != "cur")
}

func familyEth(family, id string, g *Gen, blocks, maxTx int) *Scenario {
	switch family {
	case "eth", "eth5", "erc20":
		g.Hostile = 0.1
		return g.Mixed(id, blocks, maxTx+2, EthKinds)
	case "ethstory":
		if blocks < 18 {
			blocks = 18
		}
		return g.EthStory(id, blocks)
	}
	return nil
}

// EthStory builds a guided history of the lock / redeem trackers: every external transaction of the pool is submitted,
// then all witnesses report on it - in one block, or threshold-many in one block and the others later, or one per
// block - with the outcome decided beforehand (finality or failure, now and then a dissenter); after the deciding
// report the remaining witnesses still report and witnesses that have voted report again, in the same block as the
// deciding report and in the next ones; the same external transaction is submitted again later.  The bookkeeping
// only steers; it is not an oracle.
func (g *Gen) EthStory(id string, blocks int) *Scenario {
	sc := &Scenario{ID: id, Genesis: g.G}
	type ev struct {
		h  int
		tx STx
	}
	var evs []ev
	add := func(h int, kind string, a A) {
		if h < 1 || h > blocks {
			return
		}
		if g.G.Erc20 {
			a["erc"] = 1
		}
		evs = append(evs, ev{h, STx{Req: TxReq{Kind: kind, A: a}, Path: "honest"}})
	}
	report := func(h int, x extTx, by string, okv int) {
		add(h, "ETH_REPORT", A{"tkind": x.kind, "towner": x.owner, "tamt": x.amt, "tn": x.n, "by": by, "ok": okv, "locker": x.owner})
	}
	wit := g.G.Witnesses
	h := 1
	for _, pi := range g.R.Perm(len(extPool)) {
		x := extPool[pi]
		kind := "ETH_LOCK"
		if x.kind == "redeem" {
			kind = "ETH_REDEEM"
		}
		add(h, kind, A{"owner": x.owner, "amt": x.amt, "n": x.n})
		okv := g.R.Intn(2)
		mode := g.R.Intn(3)
		rh := h + 1 + g.R.Intn(2)
		perm := g.R.Perm(len(wit))
		for i, wi := range perm {
			v := okv
			if g.R.Intn(7) == 0 {
				v = 1 - okv // a dissenter
			}
			report(rh, x, wit[wi], v)
			if mode == 2 || (mode == 1 && i == len(wit)*2/3) {
				rh++ // one per block / the deciding report closes its block
			}
		}
		for k := g.rng(1, 3); k > 0; k-- { // witnesses that have voted report again
			report(rh+g.R.Intn(2), x, g.pick(wit), okv)
		}
		if g.R.Intn(3) == 0 { // the same external transaction again
			add(rh+g.R.Intn(3), kind, A{"owner": x.owner, "amt": x.amt, "n": x.n})
		}
		if g.R.Intn(4) == 0 {
			g.curH = int64(h)
			evs = append(evs, ev{h, g.Tx("SEND", false)})
		}
		h += 1 + g.R.Intn(3)
	}
	sort.SliceStable(evs, func(i, j int) bool { return evs[i].h < evs[j].h })
	for h := 1; h <= blocks; h++ {
		b := SBlock{DT: int64(g.rng(500000, 1500000)), Proposer: g.pick(g.vals)}
		for _, e := range evs {
			if e.h == h {
				b.Txs = append(b.Txs, e.tx)
			}
		}
		sc.Blocks = append(sc.Blocks, b)
	}
	return sc
}
