package vapp

func (g *Gen) txEth(kind string, hostile bool) STx { panic("unknown kind " + kind) }

func familyEth(family, id string, g *Gen, blocks, maxTx int) *Scenario { return nil }
