package vapp

import "sort"

// names in play: two ordinary first-level names, one whose text ends with another's
// ("xalpha.ol" is not a sub-name of "alpha.ol"), sub-names and a sub-sub-name
var onsTop = []string{"alpha.ol", "beta.ol", "xalpha.ol"}
var onsSub = []string{"x.alpha.ol", "y.alpha.ol", "x.beta.ol", "z.x.alpha.ol", "x.xalpha.ol"}

// OnsStory builds a history of the domain registry: names are created, their owners update
// them, put them on sale (and cancel), others buy them, names are renewed, run out and are
// bought again at the base price, sub-names come and go - and at every step strangers try
// the owner-only requests, buyers offer too little, and requests arrive around the expiry
// height.  The model of the registry kept here only steers the generator towards accepted
// requests; it is not an oracle.
func (g *Gen) OnsStory(id string, blocks int, priceChange bool) *Scenario {
	sc := &Scenario{ID: id, Genesis: g.G}
	base, pb := int(g.G.Ons.Base), int(g.G.Ons.PerBlock)
	type ev struct {
		h  int
		tx STx
	}
	var evs []ev
	add := func(h int, kind string, a A, hostile bool) {
		if h < 1 || h > blocks {
			return
		}
		g.curH = int64(h)
		t := TxReq{Kind: kind, A: a}
		g.class, g.hclass = "", ""
		if hostile {
			g.hclass = []string{"cur", "signer", "gas"}[g.R.Intn(3)]
			if _, has := a["amt"]; has && g.R.Intn(2) == 0 {
				g.hclass = "amt"
				a["amt"] = g.amount(100, 2000, true)
			}
		}
		st := g.finish(t, hostile)
		if !hostile && g.R.Intn(4) == 0 {
			st.Path = "direct" // see GovStory: height-dependent rules are checked one block early by CheckTx
		}
		evs = append(evs, ev{h, st})
	}
	people := append(append([]string{}, g.accts...), "sv1", "sv2")
	other := func(x string) string {
		for {
			if y := g.pick(people); y != x {
				return y
			}
		}
	}
	type dom struct {
		owner  string
		exp    int
		sale   bool
		price  int
		exists bool
		benef  string // the account the name points to, when the story changed it
	}
	reg := map[string]*dom{}
	quiet := map[int]string{} // height -> an account whose own requests are left out of that block
	if priceChange {
		// a configuration proposal that changes the price per block, passed by both validators
		// (the vote snapshot is taken from the validators the evidence store knows as active, which it does from block 3 on)
		add(3, "PROP_CREATE", A{"id": "p1", "type": "config", "by": "a1", "amt": int(g.G.Proposal.InitialFunding), "fundDL": 5, "goal": g.G.Proposal.FundingGoal,
			"voteDL": int64(5) + g.G.Proposal.VotingDeadline, "pass": g.G.Proposal.PassPct, "update": []string{"onsOptions.perBlockFees:20", "onsOptions.baseDomainPrice:1100"}[g.R.Intn(2)]}, false)
		add(4, "PROP_FUND", A{"id": "p1", "by": "a2", "amt": int(g.G.Proposal.FundingGoal)}, false)
		for _, v := range []string{"v1", "v2"} {
			add(5+g.R.Intn(2), "PROP_VOTE", A{"id": "p1", "by": "s" + v, "v": v, "op": 1}, false)
		}
	}
	for _, n := range onsTop {
		if g.R.Intn(5) == 0 {
			continue
		}
		h := 1 + g.R.Intn(3)
		o := g.pick(people)
		paid := base + pb*g.rng(2, 9) + g.R.Intn(pb)
		add(h, "DOM_CREATE", A{"owner": o, "benef": []string{o, other(o)}[g.R.Intn(2)], "name": n, "uri": []string{"", "http://example.org"}[g.R.Intn(2)], "amt": paid}, g.R.Intn(12) == 0)
		reg[n] = &dom{owner: o, exp: h - 1 + (paid-base)/pb, exists: true}
		if g.R.Intn(4) == 0 { // somebody else wants the same name
			add(h+g.R.Intn(3), "DOM_CREATE", A{"owner": other(o), "benef": o, "name": n, "uri": "", "amt": base + pb*3}, false)
		}
		if g.R.Intn(6) == 0 { // too cheap
			add(h, "DOM_CREATE", A{"owner": o, "benef": o, "name": n, "uri": "", "amt": base - g.R.Intn(2)}, false)
		}
	}
	// sub-names by owners and by strangers
	for _, n := range onsSub {
		p := ParentName(n)
		d := reg[p]
		if d == nil || g.R.Intn(3) == 0 {
			if g.R.Intn(3) == 0 {
				add(g.rng(2, 6), "DOM_CREATE", A{"owner": g.pick(people), "benef": g.pick(people), "name": n, "uri": "", "amt": base + 1 + g.R.Intn(50)}, false)
			}
			continue
		}
		h := g.rng(2, 7)
		o := d.owner
		if g.R.Intn(5) == 0 {
			o = other(o)
		}
		add(h, "DOM_CREATE", A{"owner": o, "benef": o, "name": n, "uri": "", "amt": base + 1 + g.R.Intn(50)}, false)
	}
	// life of every first-level name
	for _, n := range onsTop {
		d := reg[n]
		if d == nil {
			continue
		}
		h := 3
		for h <= blocks {
			h += 1 + g.R.Intn(3)
			actor := d.owner
			stranger := g.R.Intn(4) == 0
			if stranger {
				actor = other(d.owner)
				if d.benef != "" && d.benef != d.owner && g.R.Intn(2) == 0 {
					actor = d.benef // the account the name points to acts as if it owned the name
				}
			}
			switch g.R.Intn(9) {
			case 0, 1: // put on sale / cancel
				price := g.rng(pb+1, 1500)
				cancel := d.sale && g.R.Intn(2) == 0
				add(h, "DOM_SELL", A{"owner": actor, "name": n, "amt": price, "cancel": boolInt(cancel)}, g.R.Intn(15) == 0)
				if !stranger && h <= d.exp {
					d.sale, d.price = !cancel, price
				}
			case 2, 3: // buy: enough, too little, although not on sale, after expiry
				b := other(d.owner)
				offer := d.price + pb*g.rng(0, 6) + g.R.Intn(pb)
				if !d.sale || h-1 > d.exp {
					offer = base + pb*g.rng(0, 6)
				}
				if g.R.Intn(4) == 0 {
					offer = g.rng(1, offer)
				}
				add(h, "DOM_PURCHASE", A{"buyer": b, "benef": []string{b, other(b)}[g.R.Intn(2)], "name": n, "amt": offer}, g.R.Intn(15) == 0)
				if (d.sale && offer >= d.price && h-1 <= d.exp) || (h-1 > d.exp && offer >= base) {
					if d.sale && h-1 <= d.exp {
						d.exp += (offer - d.price) / pb
					} else {
						d.exp = h - 1 + (offer-base)/pb
					}
					d.owner, d.sale = b, false
				}
			case 4: // renew
				paid := pb*g.rng(1, 6) + g.R.Intn(pb) + 1
				add(h, "DOM_RENEW", A{"owner": actor, "name": n, "amt": paid}, g.R.Intn(15) == 0)
				if !stranger && h-1 <= d.exp {
					d.exp += paid / pb
				}
			case 5: // update: beneficiary, activity
				nb, un := g.pick(people), []string{n, "x." + n, n}[g.R.Intn(3)]
				add(h, "DOM_UPDATE", A{"owner": actor, "benef": nb, "name": un, "active": g.rng(0, 1), "uri": []string{"", "http://example.org/a"}[g.R.Intn(2)]}, g.R.Intn(15) == 0)
				if !stranger && un == n {
					d.benef = nb
					if nb != d.owner && g.R.Intn(2) == 0 {
						// the account the name now points to tries to keep it alive at the owner's expense
						rh := h + g.rng(1, 2)
						add(rh, "DOM_RENEW", A{"owner": nb, "name": n, "amt": pb*g.rng(1, 6) + 1}, false)
						quiet[rh] = d.owner // the owner signs nothing in that block: whatever leaves its accounts left without its signature
					}
				}
			case 6: // somebody pays the name
				add(h, "DOM_SEND", A{"from": g.pick(people), "name": []string{n, "x." + n}[g.R.Intn(2)], "amt": g.rng(1, 900)}, g.R.Intn(10) == 0)
			case 7: // delete sub-names: one, or all
				add(h, "DOM_DELETE_SUB", A{"owner": actor, "name": []string{n, "x." + n, "y." + n}[g.R.Intn(3)]}, false)
			case 8: // wait for the expiry height and act around it
				if d.exp+1 > h && d.exp+3 <= blocks {
					h = d.exp + g.R.Intn(3)
				}
				b := other(d.owner)
				add(h, "DOM_PURCHASE", A{"buyer": b, "benef": b, "name": n, "amt": base + pb*g.rng(1, 5)}, false)
				if h-1 > d.exp {
					d.owner, d.sale, d.exp = b, false, h-1+g.rng(1, 5)
				}
			}
			if g.R.Intn(5) == 0 { // a new sub-name later in life (after a sale the old ones are gone)
				add(h+1, "DOM_CREATE", A{"owner": d.owner, "benef": d.owner, "name": []string{"x." + n, "y." + n}[g.R.Intn(2)], "uri": "", "amt": base + 1 + g.R.Intn(30)}, false)
			}
		}
	}
	for h := 1; h <= blocks; h++ {
		if g.R.Intn(5) == 0 {
			g.curH = int64(h)
			evs = append(evs, ev{h, g.Tx("SEND", false)})
		}
	}
	sort.SliceStable(evs, func(i, j int) bool { return evs[i].h < evs[j].h })
	for h := 1; h <= blocks; h++ {
		b := SBlock{DT: int64(g.rng(500000, 1500000)), Proposer: g.pick(g.vals)}
		for _, e := range evs {
			if e.h == h {
				if q, ok := quiet[h]; ok {
					a := e.tx.Req.A
					if a["owner"] == q || a["from"] == q || a["buyer"] == q || a["by"] == q {
						continue
					}
				}
				b.Txs = append(b.Txs, e.tx)
			}
		}
		sc.Blocks = append(sc.Blocks, b)
	}
	return sc
}
