package vapp

import (
	"encoding/json"
	"strings"
)

// DomRec is the projection of one d_<reversed name> record of the domain store (C20).
type DomRec struct {
	Owner   string `json:"owner"`
	Benef   string `json:"benef"`
	Created int64  `json:"created"`
	LastUpd int64  `json:"lastUpd"`
	Expire  int64  `json:"exp"`
	Active  bool   `json:"active"`
	OnSale  bool   `json:"sale"`
	Price   int64  `json:"price"` // asking price in units; 0 when none is recorded
	URI     string `json:"uri"`
}

func reverseStr(s string) string {
	r := []rune(s)
	for i, j := 0, len(r)-1; i < j; i, j = i+1, j-1 {
		r[i], r[j] = r[j], r[i]
	}
	return string(r)
}

func (p *projector) domain(k string, v []byte) bool {
	// data/ons/domain_data.go: the persistent form has one-letter field names; the sale price is the
	// base64 of its JSON text
	var r struct {
		Owner       string `json:"a"`
		Beneficiary string `json:"b"`
		Name        string `json:"c"`
		Created     int64  `json:"d"`
		LastUpd     int64  `json:"e"`
		Expire      int64  `json:"f"`
		Active      bool   `json:"g"`
		OnSale      bool   `json:"h"`
		SalePrice   []byte `json:"i"`
		URI         string `json:"k"`
	}
	if err := json.Unmarshal(v, &r); err != nil {
		return false
	}
	name := reverseStr(strings.TrimPrefix(k, "d_"))
	if r.Name != name {
		p.s.Bad = append(p.s.Bad, k+":record names "+r.Name)
	}
	d := DomRec{Owner: p.nameOf0lt(r.Owner), Created: r.Created, LastUpd: r.LastUpd, Expire: r.Expire, Active: r.Active, OnSale: r.OnSale, URI: r.URI}
	if r.Beneficiary != "" {
		d.Benef = p.nameOf0lt(r.Beneficiary)
	}
	if len(r.SalePrice) > 0 && string(r.SalePrice) != "null" {
		d.Price = p.num(k+".salePrice", r.SalePrice)
	}
	p.s.Domains[name] = d
	return true
}

func (p *projector) evm(k []byte, v []byte) bool { return false }
