package vapp

func (p *projector) domain(k string, v []byte) bool { return false }

func (p *projector) evm(k []byte, v []byte) bool { return false }
