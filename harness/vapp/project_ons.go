package vapp

import (
	"encoding/json"
	"math/big"
	"strings"
)

// DomRec is the projection of one d_<reversed name> record of the domain store (C20).
type DomRec struct {
	Owner   string `json:"owner"`
	Benef   string `json:"benef"`
	Created int64  `json:"created"`
	LastUpd int64  `json:"lastUpd"`
	Expire  int64  `json:"exp"`
	Active  bool   `json:"active"`
	OnSale  bool   `json:"sale"`
	Price   int64  `json:"price"` // asking price in units; 0 when none is recorded
	URI     string `json:"uri"`
}

func reverseStr(s string) string {
	r := []rune(s)
	for i, j := 0, len(r)-1; i < j; i, j = i+1, j-1 {
		r[i], r[j] = r[j], r[i]
	}
	return string(r)
}

func (p *projector) domain(k string, v []byte) bool {
	// data/ons/domain_data.go: the persistent form has one-letter field names; the sale price is the
	// base64 of its JSON text
	var r struct {
		Owner       string `json:"a"`
		Beneficiary string `json:"b"`
		Name        string `json:"c"`
		Created     int64  `json:"d"`
		LastUpd     int64  `json:"e"`
		Expire      int64  `json:"f"`
		Active      bool   `json:"g"`
		OnSale      bool   `json:"h"`
		SalePrice   []byte `json:"i"`
		URI         string `json:"k"`
	}
	if err := json.Unmarshal(v, &r); err != nil {
		return false
	}
	name := reverseStr(strings.TrimPrefix(k, "d_"))
	if r.Name != name {
		p.s.Bad = append(p.s.Bad, k+":record names "+r.Name)
	}
	d := DomRec{Owner: p.nameOf0lt(r.Owner), Created: r.Created, LastUpd: r.LastUpd, Expire: r.Expire, Active: r.Active, OnSale: r.OnSale, URI: r.URI}
	if r.Beneficiary != "" {
		d.Benef = p.nameOf0lt(r.Beneficiary)
	}
	if len(r.SalePrice) > 0 && string(r.SalePrice) != "null" {
		// an asking price is not an amount anybody holds: any magnitude is legitimate, it is clamped without being flagged
		if b, ok := new(big.Int).SetString(strings.Trim(string(r.SalePrice), "\""), 10); ok {
			if b.IsInt64() && b.Int64() < Lim && b.Sign() >= 0 {
				d.Price = b.Int64()
			} else if b.Sign() >= 0 {
				d.Price = Lim - 1
			} else {
				d.Price = p.num(k+".salePrice", r.SalePrice)
			}
		}
	}
	p.s.Domains[name] = d
	return true
}

// emptyCodeHash is Keccak256(nil), the code hash of an account without code
const emptyCodeHash = "c5d2460186f7233c927e7db2dcc703c0e500b653ca82273b7bfad8045d85a470"

// evm projects the EVM side: keeper_<address> account records (nonce, code hash; the balance lives
// in the balance store only), contracts_\x01<code hash> code and contracts_\x02<address><slot> storage.
func (p *projector) evm(k []byte, v []byte) bool {
	ks := string(k)
	switch {
	case strings.HasPrefix(ks, "keeper_"):
		var r struct {
			Address  string `json:"address"`
			CodeHash []byte `json:"codeHash"`
			Sequence int64  `json:"sequence"`
		}
		if err := json.Unmarshal(v, &r); err != nil {
			return false
		}
		n := p.name(Hex(k[len("keeper_"):]))
		p.s.Nonce[n] = r.Sequence
		if len(r.CodeHash) > 0 && Hex(r.CodeHash) != emptyCodeHash {
			p.s.Code[n] = 1
		}
		return true
	case strings.HasPrefix(ks, "contracts_\x01"):
		p.s.EvmCode[Hex(k[len("contracts_")+1:])] = int64(len(v))
		return true
	case strings.HasPrefix(ks, "contracts_\x02") && len(k) >= len("contracts_")+1+20:
		rest := k[len("contracts_")+1:]
		n := p.name(Hex(rest[:20]))
		if p.s.EvmStore[n] == nil {
			p.s.EvmStore[n] = map[string]string{}
		}
		p.s.EvmStore[n][Hex(rest[20:])] = Hex(v)
		return true
	}
	return false
}
