package vapp

import (
	"sort"
	"strings"
)

// ---------------------------------------------------------------------------------
// Bid_Trace events (bid application; part of C02)

type BidTx struct {
	K     string `json:"k"`
	By    string `json:"by"`
	ID    string `json:"id"`
	Owner string `json:"owner"`
	Asset string `json:"asset"`
	AType string `json:"atype"`
	Amt   int64  `json:"amt"`
	DL    int64  `json:"dl"`
	New   bool   `json:"new"`
	Dec   int64  `json:"dec"`
	Fee   int64  `json:"fee"`
	Payer string `json:"payer"`
}

type BidConvS struct {
	Owner  string `json:"owner"`
	Asset  string `json:"asset"`
	AType  string `json:"atype"`
	Bidder string `json:"bidder"`
	DL     int64  `json:"dl"`
	St     string `json:"st"`
}
type BidOfferS struct {
	Type string `json:"type"`
	Amt  int64  `json:"amt"`
}
type BidDomS struct {
	Owner string `json:"owner"`
	Sale  bool   `json:"sale"`
	Exp   int64  `json:"exp"`
	Upd   int64  `json:"upd"`
}
type BidState struct {
	Conv  map[string]BidConvS  `json:"conv"`
	Offer map[string]BidOfferS `json:"offer"`
	Bal   map[string]int64     `json:"bal"`
	Dom   map[string]BidDomS   `json:"dom"`
}

type BidEvent struct {
	T     int      `json:"t"`
	Ev    string   `json:"ev"`
	H     int64    `json:"h"`
	Now   int64    `json:"now"`
	Txs   []BidTx  `json:"txs"`
	Other []string `json:"other"` // accounts whose balance other transactions of the block moved
	Skip  []string `json:"skip"`  // conversations not re-computed in this block (their asset's record was changed by a registry request, or an amount TLC cannot represent)
	SkipA []string `json:"skipa"` // names changed by registry requests in this block
	S     BidState `json:"s"`
}

func bidState(s *AbsState) BidState {
	out := BidState{Conv: map[string]BidConvS{}, Offer: map[string]BidOfferS{}, Bal: map[string]int64{}, Dom: map[string]BidDomS{}}
	for id, r := range s.Bids {
		if r.Stores > 0 {
			out.Conv[id] = BidConvS{Owner: r.Owner, Asset: r.Asset, AType: r.AType, Bidder: r.Bidder, DL: r.DL, St: r.Store}
		}
		if r.Offer != "" {
			out.Offer[id] = BidOfferS{Type: r.Offer, Amt: r.Amt}
		}
	}
	for o, m := range s.Bal {
		if v, ok := m["OLT"]; ok {
			out.Bal[o] = v
		}
	}
	for n, d := range s.Domains {
		out.Dom[n] = BidDomS{Owner: d.Owner, Sale: d.OnSale, Exp: d.Expire, Upd: d.LastUpd}
	}
	return out
}

func BidEvents(t int, sc *Scenario, tr *Transcript) []BidEvent {
	if tr.InitState == nil {
		return nil
	}
	g := genesisCache(sc.Genesis)
	evs := []BidEvent{{T: t, Ev: "Init", Txs: []BidTx{}, Other: []string{}, Skip: []string{}, SkipA: []string{}, S: bidState(tr.InitState)}}
	prev := tr.InitState
	for _, b := range tr.Blocks {
		if b.State == nil {
			break
		}
		e := BidEvent{T: t, Ev: "Block", H: b.H, Now: b.Secs, Txs: []BidTx{}, S: bidState(b.State)}
		other, skip, skipa := map[string]bool{}, map[string]bool{}, map[string]bool{}
		for _, tx := range b.Txs {
			if !accepted(tx) {
				continue
			}
			r := tx.Req
			if !strings.HasPrefix(r.Kind, "BID_") {
				// whatever else the block did to balances and registry records is taken from the observation
				for _, k := range []string{"from", "to", "owner", "benef", "buyer", "by", "d", "v", "signer"} {
					if n := r.S(k); n != "" {
						other[n] = true
					}
				}
				other[tx.FeePay] = true
				if strings.HasPrefix(r.Kind, "DOM_") {
					n := r.S("name")
					skipa[n] = true
					skipa[ParentName(n)] = true
					if d, ok := prev.Domains[n]; ok {
						other[d.Owner], other[d.Benef] = true, true
					}
				}
				continue
			}
			amt, ok := argInt(r, "amt")
			x := BidTx{K: r.Kind, By: r.S("by"), Amt: amt, Dec: r.I("dec"), Fee: feeOf(tx), Payer: tx.FeePay,
				Owner: r.S("cowner"), Asset: r.S("casset"), AType: r.S("atype"), DL: r.I("dl")}
			if r.I("ch") == 0 {
				x.New = true
				x.ID = string(g.BidConvID(r.S("cowner"), r.S("casset"), r.S("by"), b.H))
			} else {
				x.ID = string(g.convOf(r))
			}
			if (!ok && (r.Kind == "BID_CREATE" || r.Kind == "BID_COUNTER")) || r.Cur != "" {
				skip[x.ID] = true
			}
			e.Txs = append(e.Txs, x)
		}
		// conversations about a name a registry request touched in this block are not re-computed
		for id, c := range prev.Bids {
			if skipa[c.Asset] {
				skip[id] = true
			}
		}
		for _, x := range e.Txs {
			if skipa[x.Asset] {
				skip[x.ID] = true
			}
		}
		for id := range skip {
			for _, st := range []*AbsState{prev, b.State} {
				if c, ok := st.Bids[id]; ok {
					other[c.Owner], other[c.Bidder] = true, true
				}
			}
			for _, x := range e.Txs {
				if x.ID == id {
					other[x.By], other[x.Owner] = true, true
				}
			}
		}
		delete(other, "")
		delete(skipa, "")
		e.Other, e.Skip, e.SkipA = keysOf(other), keysOf(skip), keysOf(skipa)
		evs = append(evs, e)
		prev = b.State
	}
	return evs
}

func keysOf(m map[string]bool) []string {
	out := []string{}
	for k := range m {
		out = append(out, k)
	}
	sort.Strings(out)
	return out
}
