package vapp

import "encoding/json"

func writeSubsysExt(spec string, enc *json.Encoder, t int, sc *Scenario, tr *Transcript) int {
	panic("unknown spec " + spec)
}
