package vapp

import (
	"encoding/json"
	"strings"
)

func writeSubsysExt(spec string, enc *json.Encoder, t int, sc *Scenario, tr *Transcript) int {
	n := 0
	switch spec {
	case "Ons":
		for _, e := range OnsEvents(t, sc, tr) {
			_ = enc.Encode(e)
			n++
		}
	default:
		panic("unknown spec " + spec)
	}
	return n
}

// ---------------------------------------------------------------------------------
// Ons_Trace events (C20)

type OnsTx struct {
	K      string `json:"k"`
	Name   string `json:"name"`
	By     string `json:"by"`
	Benef  string `json:"benef"`
	Amt    int64  `json:"amt"`
	Active bool   `json:"active"`
	Cancel bool   `json:"cancel"`
	URI    string `json:"uri"`
	To     string `json:"to"`
	Fee    int64  `json:"fee"`
	Payer  string `json:"payer"`
}

type OnsState struct {
	Dom map[string]DomRec `json:"dom"`
	Bal map[string]int64  `json:"bal"`
}

type OnsEvent struct {
	T     int               `json:"t"`
	Ev    string            `json:"ev"`
	H     int64             `json:"h"`
	Base  int64             `json:"base"`
	Pb    int64             `json:"pb"`
	Par   map[string]string `json:"par"`
	Txs   []OnsTx           `json:"txs"`
	Other []string          `json:"other"`
	Skip  []string          `json:"skip"` // names touched by an accepted request whose amount TLC cannot represent (an asking price of 2^63)
	S     OnsState          `json:"s"`
}

// ParentName is the harness's own reading of the naming rule: a name with more than two
// labels is a sub-name of the name made of its last two labels.
func ParentName(n string) string {
	ls := strings.Split(n, ".")
	if len(ls) <= 2 {
		return ""
	}
	return ls[len(ls)-2] + "." + ls[len(ls)-1]
}

func onsState(s *AbsState) OnsState {
	bal := map[string]int64{}
	for o, m := range s.Bal {
		if v, ok := m["OLT"]; ok {
			bal[o] = v
		}
	}
	return OnsState{Dom: s.Domains, Bal: bal}
}

func OnsEvents(t int, sc *Scenario, tr *Transcript) []OnsEvent {
	if tr.InitState == nil {
		return nil
	}
	par := map[string]string{}
	note := func(n string) {
		if n != "" {
			par[n] = ParentName(n)
		}
	}
	for _, b := range sc.Blocks {
		for _, tx := range b.Txs {
			if strings.HasPrefix(tx.Req.Kind, "DOM_") {
				note(tx.Req.S("name"))
			}
		}
	}
	for _, b := range tr.Blocks {
		if b.State != nil {
			for n := range b.State.Domains {
				note(n)
			}
		}
	}
	evs := []OnsEvent{{T: t, Ev: "Init", Par: par, Txs: []OnsTx{}, Other: []string{}, Skip: []string{}, S: onsState(tr.InitState)}}
	prev := tr.InitState
	for _, b := range tr.Blocks {
		if b.State == nil {
			break
		}
		e := OnsEvent{T: t, Ev: "Block", H: b.H, Base: optInt(prev, "onsopt", "baseDomainPrice"), Pb: optInt(prev, "onsopt", "perBlockFees"), Par: par,
			Txs: []OnsTx{}, Other: []string{}, Skip: []string{}, S: onsState(b.State)}
		for _, tx := range b.Txs {
			if !accepted(tx) {
				continue
			}
			a, ok := argInt(tx.Req, "amt")
			r := tx.Req
			d := OnsTx{K: r.Kind, Name: r.S("name"), Amt: a, Fee: feeOf(tx), Payer: tx.FeePay, URI: r.S("uri")}
			switch r.Kind {
			case "DOM_CREATE":
				d.By, d.Benef = r.S("owner"), r.S("benef")
			case "DOM_UPDATE":
				d.By, d.Benef, d.Active = r.S("owner"), r.S("benef"), r.I("active") != 0
				ok = true
			case "DOM_SELL":
				d.By, d.Cancel = r.S("owner"), r.I("cancel") != 0
			case "DOM_PURCHASE":
				d.By, d.Benef = r.S("buyer"), r.S("benef")
			case "DOM_SEND":
				d.By = r.S("from")
			case "DOM_RENEW", "DOM_DELETE_SUB":
				d.By = r.S("owner")
				ok = ok || r.Kind == "DOM_DELETE_SUB"
			case "SEND":
				d.By, d.To = r.S("from"), r.S("to")
			default:
				e.Other = append(e.Other, r.Kind)
				continue
			}
			if !ok {
				e.Other = append(e.Other, r.Kind+":unrepresentable-amount")
				e.Skip = append(e.Skip, d.Name)
				d.K = "OTHER"
			}
			e.Txs = append(e.Txs, d)
		}
		// payouts of a proposal finalised at the end of the block move balances without a transaction
		for n, q := range b.State.Props {
			if o, was := prev.Props[n]; was && o.Store != q.Store {
				e.Other = append(e.Other, "governance:"+q.Store)
			}
		}
		evs = append(evs, e)
		prev = b.State
	}
	return evs
}
