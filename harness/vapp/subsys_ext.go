package vapp

import (
	"encoding/hex"
	"encoding/json"
	"math/big"
	"sort"
	"strings"
)

func writeSubsysExt(spec string, enc *json.Encoder, t int, sc *Scenario, tr *Transcript) int {
	n := 0
	switch spec {
	case "Ons":
		for _, e := range OnsEvents(t, sc, tr) {
			_ = enc.Encode(e)
			n++
		}
	case "Rewards":
		for _, e := range RewardEvents(t, sc, tr) {
			_ = enc.Encode(e)
			n++
		}
	case "Bid":
		for _, e := range BidEvents(t, sc, tr) {
			_ = enc.Encode(e)
			n++
		}
	case "Olvm":
		for _, e := range OlvmEvents(t, sc, tr) {
			_ = enc.Encode(e)
			n++
		}
	case "Fees":
		for _, e := range FeeEvents(t, sc, tr) {
			_ = enc.Encode(e)
			n++
		}
	default:
		panic("unknown spec " + spec)
	}
	return n
}

// ---------------------------------------------------------------------------------
// Ons_Trace events (C20)

type OnsTx struct {
	K      string `json:"k"`
	Name   string `json:"name"`
	By     string `json:"by"`
	Benef  string `json:"benef"`
	Amt    int64  `json:"amt"`
	Active bool   `json:"active"`
	Cancel bool   `json:"cancel"`
	URI    string `json:"uri"`
	To     string `json:"to"`
	Fee    int64  `json:"fee"`
	Payer  string `json:"payer"`
}

type OnsState struct {
	Dom map[string]DomRec `json:"dom"`
	Bal map[string]int64  `json:"bal"`
}

type OnsEvent struct {
	T     int               `json:"t"`
	Ev    string            `json:"ev"`
	H     int64             `json:"h"`
	Base  int64             `json:"base"`
	Pb    int64             `json:"pb"`
	Par   map[string]string `json:"par"`
	Txs   []OnsTx           `json:"txs"`
	Other []string          `json:"other"`
	Skip  []string          `json:"skip"` // names touched by an accepted request whose amount TLC cannot represent (an asking price of 2^63)
	S     OnsState          `json:"s"`
}

// ParentName is the harness's own reading of the naming rule: a name with more than two
// labels is a sub-name of the name made of its last two labels.
func ParentName(n string) string {
	ls := strings.Split(n, ".")
	if len(ls) <= 2 {
		return ""
	}
	return ls[len(ls)-2] + "." + ls[len(ls)-1]
}

func onsState(s *AbsState) OnsState {
	bal := map[string]int64{}
	for o, m := range s.Bal {
		if v, ok := m["OLT"]; ok {
			bal[o] = v
		}
	}
	return OnsState{Dom: s.Domains, Bal: bal}
}

func OnsEvents(t int, sc *Scenario, tr *Transcript) []OnsEvent {
	if tr.InitState == nil {
		return nil
	}
	par := map[string]string{}
	note := func(n string) {
		if n != "" {
			par[n] = ParentName(n)
		}
	}
	for _, b := range sc.Blocks {
		for _, tx := range b.Txs {
			if strings.HasPrefix(tx.Req.Kind, "DOM_") {
				note(tx.Req.S("name"))
			}
		}
	}
	for _, b := range tr.Blocks {
		if b.State != nil {
			for n := range b.State.Domains {
				note(n)
			}
		}
	}
	evs := []OnsEvent{{T: t, Ev: "Init", Par: par, Txs: []OnsTx{}, Other: []string{}, Skip: []string{}, S: onsState(tr.InitState)}}
	prev := tr.InitState
	for _, b := range tr.Blocks {
		if b.State == nil {
			break
		}
		e := OnsEvent{T: t, Ev: "Block", H: b.H, Base: optInt(prev, "onsopt", "baseDomainPrice"), Pb: optInt(prev, "onsopt", "perBlockFees"), Par: par,
			Txs: []OnsTx{}, Other: []string{}, Skip: []string{}, S: onsState(b.State)}
		for _, tx := range b.Txs {
			if !accepted(tx) {
				continue
			}
			a, ok := argInt(tx.Req, "amt")
			r := tx.Req
			d := OnsTx{K: r.Kind, Name: r.S("name"), Amt: a, Fee: feeOf(tx), Payer: tx.FeePay, URI: r.S("uri")}
			switch r.Kind {
			case "DOM_CREATE":
				d.By, d.Benef = r.S("owner"), r.S("benef")
			case "DOM_UPDATE":
				d.By, d.Benef, d.Active = r.S("owner"), r.S("benef"), r.I("active") != 0
				ok = true
			case "DOM_SELL":
				d.By, d.Cancel = r.S("owner"), r.I("cancel") != 0
			case "DOM_PURCHASE":
				d.By, d.Benef = r.S("buyer"), r.S("benef")
			case "DOM_SEND":
				d.By = r.S("from")
			case "DOM_RENEW", "DOM_DELETE_SUB":
				d.By = r.S("owner")
				ok = ok || r.Kind == "DOM_DELETE_SUB"
			case "SEND":
				d.By, d.To = r.S("from"), r.S("to")
			default:
				e.Other = append(e.Other, r.Kind)
				continue
			}
			if !ok {
				e.Other = append(e.Other, r.Kind+":unrepresentable-amount")
				e.Skip = append(e.Skip, d.Name)
				d.K = "OTHER"
			}
			e.Txs = append(e.Txs, d)
		}
		// payouts of a proposal finalised at the end of the block move balances without a transaction
		for n, q := range b.State.Props {
			if o, was := prev.Props[n]; was && o.Store != q.Store {
				e.Other = append(e.Other, "governance:"+q.Store)
			}
		}
		evs = append(evs, e)
		prev = b.State
	}
	return evs
}

// ---------------------------------------------------------------------------------
// Olvm_Trace events (C17)

type OlvmTx struct {
	K        string `json:"k"`
	From     string `json:"from"`
	To       string `json:"to"`
	Amt      int64  `json:"amt"`
	Nonce    int64  `json:"nonce"`
	Gas      int64  `json:"gas"`
	Price    int64  `json:"price"`
	Used     int64  `json:"used"`
	Status   string `json:"status"`
	Prog     string `json:"prog"`
	Created  string `json:"created"`
	Arg      string `json:"arg"`
	ChainOk  bool   `json:"chainOk"`
	SignedBy string `json:"signedBy"`
	Probed   int64  `json:"probed"`
	Code     int64  `json:"code"`
	Fee      int64  `json:"fee"`
	Payer    string `json:"payer"`
	Nested   bool   `json:"nested"` // a call of program "nest"
}

type OlvmState struct {
	Bal   map[string]int64 `json:"bal"`
	Nonce map[string]int64 `json:"nonce"`
	Coded []string         `json:"coded"` // addresses whose account record carries code
	Pool  int64            `json:"pool"`  // fee pool and the validators' fee shares cut from it
}

type OlvmEvent struct {
	T     int       `json:"t"`
	Ev    string    `json:"ev"`
	H     int64     `json:"h"`
	Fork  int64     `json:"fork"` // the height from which the EVM is switched on
	Txs   []OlvmTx  `json:"txs"`
	Other []string  `json:"other"`
	S     OlvmState `json:"s"`
}

func olvmState(s *AbsState) OlvmState {
	o := OlvmState{Bal: map[string]int64{}, Nonce: map[string]int64{}, Coded: []string{}, Pool: s.FeePool}
	for n, m := range s.Bal {
		if v, ok := m["OLT"]; ok {
			o.Bal[n] = v
		}
	}
	for n, v := range s.Nonce {
		if v != 0 {
			o.Nonce[n] = v
		}
	}
	for n := range s.Code {
		o.Coded = append(o.Coded, n)
	}
	sort.Strings(o.Coded)
	for _, v := range s.FeeShare {
		o.Pool += v
	}
	return o
}

func OlvmEvents(t int, sc *Scenario, tr *Transcript) []OlvmEvent {
	if tr.InitState == nil {
		return nil
	}
	g := BuildGenesis(sc.Genesis)
	evs := []OlvmEvent{{T: t, Ev: "Init", Txs: []OlvmTx{}, Other: []string{}, S: olvmState(tr.InitState)}}
	for _, b := range tr.Blocks {
		if b.State == nil {
			break
		}
		e := OlvmEvent{T: t, Ev: "Block", H: b.H, Fork: sc.Genesis.Fork, Txs: []OlvmTx{}, Other: []string{}, S: olvmState(b.State)}
		for _, tx := range b.Txs {
			if !accepted(tx) {
				continue
			}
			r := tx.Req
			a, ok := argInt(r, "amt")
			switch r.Kind {
			case "SEND":
				e.Txs = append(e.Txs, OlvmTx{K: "SEND", From: r.S("from"), To: r.S("to"), Amt: a, Fee: feeOf(tx), Payer: tx.FeePay, Probed: -1})
			case "OLVM":
				price, gas := r.Price, r.Gas
				if price == 0 {
					price = 1
				}
				if gas == 0 {
					gas = 120000
				}
				x := OlvmTx{K: "OLVM", From: r.S("from"), To: r.S("to"), Amt: a, Nonce: r.I("nonce"), Gas: gas, Price: price, Used: tx.Deliver.GasUsed,
					ChainOk: r.S("chain") != "wrong", SignedBy: r.S("from"), Probed: -1}
				if len(r.Signers) > 0 {
					x.SignedBy = r.Signers[0]
				}
				d := r.S("data")
				if strings.HasPrefix(d, "create:") {
					x.Prog = d[7:]
				}
				if strings.HasPrefix(d, "arg:") {
					x.Arg = d[4:]
				}
				if strings.HasPrefix(d, "nest:") {
					x.Arg = strings.Split(d[5:], "|")[0]
					x.Nested = true
				}
				if o := tx.Deliver.Olvm; o != nil {
					x.Status = o.Status
					if o.Contract != "" {
						x.Created = g.Name(mustHex(o.Contract))
					}
					for _, l := range o.Logs {
						if v, isInt := new(big.Int).SetString(l.Data, 16); isInt && v.IsInt64() && v.Int64() < Lim {
							x.Probed = v.Int64()
						}
					}
				}
				e.Txs = append(e.Txs, x)
			default:
				e.Other = append(e.Other, r.Kind)
				continue
			}
			if !ok {
				e.Other = append(e.Other, r.Kind+":unrepresentable-amount")
			}
		}
		evs = append(evs, e)
	}
	return evs
}

func mustHex(s string) []byte {
	b, err := hex.DecodeString(s)
	if err != nil {
		panic(err)
	}
	return b
}

// ---------------------------------------------------------------------------------
// Rewards_Trace events (C13)

type RwVote struct {
	V      string `json:"v"`
	P      int64  `json:"p"`
	Signed bool   `json:"signed"`
	Known  bool   `json:"known"` // the validator's record exists when the block begins
}

type RwYear struct {
	Till int64 `json:"till"`
	Dist int64 `json:"dist"`
}

type RwState struct {
	Years     []RwYear                    `json:"years"`
	Total     int64                       `json:"total"`
	Chunk     map[string]map[string]int64 `json:"chunk"`
	Matured   map[string]int64            `json:"matured"`
	Withdrawn map[string]int64            `json:"withdrawn"`
}

type RwTx struct {
	K      string `json:"k"`
	V      string `json:"v"`
	Signer string `json:"signer"`
	A      int64  `json:"a"` // units
}

type RwEvent struct {
	T        int              `json:"t"`
	Ev       string           `json:"ev"`
	H        int64            `json:"h"`
	Times    []int64          `json:"times"`
	Cycle    int64            `json:"cycle"`
	Est      int64            `json:"est"`
	Window   int64            `json:"window"`
	Shares   []int64          `json:"shares"`
	Closes   []int64          `json:"closes"`
	Burnout  int64            `json:"burnout"`
	Interval int64            `json:"interval"`
	Pool     int64            `json:"pool"`
	PoolPost int64            `json:"poolPost"`
	Votes    []RwVote         `json:"votes"`
	Deleg    bool             `json:"deleg"`
	Credited map[string]int64 `json:"credited"` // block_rewards event: validator -> units credited in this block
	NoEvent  bool             `json:"noEvent"`  // the block reported no block_rewards event
	Restart  bool             `json:"restart"`  // the node was restarted before this block
	Txs      []RwTx           `json:"txs"`
	S        RwState          `json:"s"`
}

func rwState(s *AbsState) RwState {
	o := RwState{Years: []RwYear{}, Total: s.RwTDist, Chunk: s.RwChunk, Matured: s.RwBal, Withdrawn: s.RwWd}
	for _, y := range s.RwYears {
		o.Years = append(o.Years, RwYear{Till: y.Till, Dist: y.Dist})
	}
	return o
}

func optAmounts(s *AbsState, opt, field string) []int64 {
	var m map[string]json.RawMessage
	if json.Unmarshal(s.Opts[opt], &m) != nil {
		return nil
	}
	var raw []json.RawMessage
	if json.Unmarshal(m[field], &raw) != nil {
		return nil
	}
	var out []int64
	for _, r := range raw {
		v, _ := new(big.Int).SetString(strings.Trim(string(r), "\""), 10)
		if v == nil {
			v = new(big.Int)
		}
		out = append(out, v.Int64())
	}
	return out
}

func RewardEvents(t int, sc *Scenario, tr *Transcript) []RwEvent {
	if tr.InitState == nil {
		return nil
	}
	g := BuildGenesis(sc.Genesis)
	base := pow10(sc.Genesis.OLTDecimal)
	evs := []RwEvent{{T: t, Ev: "Init", Times: []int64{}, Shares: []int64{}, Closes: []int64{}, Votes: []RwVote{}, Credited: map[string]int64{}, Txs: []RwTx{}, S: rwState(tr.InitState)}}
	prev := tr.InitState
	var times []int64
	restarted := false
	for _, b := range tr.Blocks {
		if b.State == nil {
			break
		}
		times = append(times, b.Secs)
		e := RwEvent{T: t, Ev: "Block", H: b.H, Times: append([]int64{}, times...), Cycle: optInt(prev, "reward", "blockSpeedCalculateCycle"),
			Est: optInt(prev, "reward", "estimatedSecondsPerCycle"), Window: optInt(prev, "reward", "yearCloseWindow"),
			Shares: optAmounts(prev, "reward", "yearBlockRewardShares"), Burnout: optInt(prev, "reward", "burnoutRate"),
			Interval: optInt(prev, "reward", "rewardInterval"), Pool: prev.Bal["pool:"+RewardPoolAddr]["OLT"], PoolPost: b.State.Bal["pool:"+RewardPoolAddr]["OLT"],
			Deleg: prev.Bal["pool:delegation"]["OLT"] > 0, Credited: map[string]int64{}, NoEvent: true, Restart: restarted,
			Txs: []RwTx{}, Votes: []RwVote{}, Closes: []int64{}, S: rwState(b.State)}
		restarted = false
		for _, y := range b.State.RwYears {
			e.Closes = append(e.Closes, y.Close)
		}
		for _, v := range b.Votes {
			_, known := prev.Vals[v.Validator]
			e.Votes = append(e.Votes, RwVote{V: v.Validator, P: v.Power, Signed: v.Signed, Known: known})
		}
		for _, ev := range b.Events {
			switch ev.Type {
			case "block_rewards":
				e.NoEvent = false
				for k, val := range ev.Attrs {
					if strings.HasPrefix(k, "0lt") && len(k) == 43 {
						n, _ := new(big.Int).SetString(val, 10)
						if n != nil && n.Sign() != 0 {
							e.Credited[g.Name(mustHex(k[3:]))] = n.Int64()
						}
					}
				}
			case "verif_restart":
				restarted = true
			}
		}
		for _, tx := range b.Txs {
			if !accepted(tx) {
				continue
			}
			if tx.Req.Kind == "REWARD_WITHDRAW" {
				a, ok := argInt(tx.Req, "amt")
				if !ok {
					a = -1
				}
				e.Txs = append(e.Txs, RwTx{K: "WITHDRAW", V: tx.Req.S("v"), Signer: tx.Req.S("signer"), A: a * base})
			}
		}
		evs = append(evs, e)
		prev = b.State
	}
	return evs
}
