package vapp

import (
	"sort"
	"strconv"
	"strings"
)

// HoldEntry is one entry of the Ledger specification's state.
type HoldEntry struct {
	O   string `json:"o"`
	C   string `json:"c"`
	Cat string `json:"cat"`
	V   int64  `json:"v"`
}

// LedgerEvent is one line of a Ledger_Trace trace.
type LedgerEvent struct {
	T      int              `json:"t"`
	Ev     string           `json:"ev"`
	H      int64            `json:"h"`
	Hold   []HoldEntry      `json:"hold"`
	Bad    []string         `json:"bad"`
	Signed []string         `json:"signed"`
	Guilty []string         `json:"guilty"`
	Eoa    []string         `json:"eoa"`
	Allow  map[string]int64 `json:"allow"`
}

func isPool(o string) bool { return strings.HasPrefix(o, "pool:") }

// Hold converts the projection into ledger entries.  base = units per whole OLT.
func Hold(s *AbsState, base int64) []HoldEntry {
	var out []HoldEntry
	add := func(o, c, cat string, v int64) {
		if v != 0 {
			out = append(out, HoldEntry{o, c, cat, v})
		}
	}
	for o, m := range s.Bal {
		for c, v := range m {
			if o == "pool:"+EthSupplyAddr && c != "OLT" {
				continue // the wrapped-supply counter is a mirror of the circulation (checked by C15)
			}
			add(o, c, "bal", v)
		}
	}
	add("pool:fee", "OLT", "feePool", s.FeePool)
	for o, v := range s.FeeShare {
		add(o, "OLT", "feeShare", v)
	}
	for _, m := range s.StakeEff {
		for d, v := range m {
			add(d, "OLT", "stLocked", v*base)
		}
	}
	for _, m := range s.Maturing {
		for d, v := range m {
			add(d, "OLT", "stUnlock", v*base)
		}
	}
	for d, v := range s.Bounded {
		add(d, "OLT", "stFree", v*base)
	}
	for d, v := range s.DelegAct {
		add(d, "OLT", "delegated", v)
	}
	for _, m := range s.DelegPend {
		for d, v := range m {
			add(d, "OLT", "undeleg", v)
		}
	}
	for d, v := range s.DelegRw {
		add(d, "OLT", "rwClaim", v)
	}
	for _, m := range s.DelegRwP {
		for d, v := range m {
			add(d, "OLT", "rwPend", v)
		}
	}
	for _, m := range s.PropFunds {
		for a, v := range m {
			add(a, "OLT", "propFund", v)
		}
	}
	// an open bid is held by the bid application for its bidder (the owner's counter offer holds nothing)
	for _, r := range s.Bids {
		if r.Offer == "bid" {
			add(r.Bidder, "OLT", "escrow", r.Amt)
		}
	}
	// merge duplicates (same owner/currency/category from several records) and sort
	agg := map[HoldEntry]int64{}
	for _, e := range out {
		k := HoldEntry{e.O, e.C, e.Cat, 0}
		agg[k] += e.V
	}
	out = out[:0]
	for k, v := range agg {
		k.V = v
		out = append(out, k)
	}
	sort.Slice(out, func(i, j int) bool {
		a, b := out[i], out[j]
		if a.O != b.O {
			return a.O < b.O
		}
		if a.C != b.C {
			return a.C < b.C
		}
		return a.Cat < b.Cat
	})
	return out
}

func pow10(n int64) int64 {
	r := int64(1)
	for i := int64(0); i < n; i++ {
		r *= 10
	}
	return r
}

// LedgerEvents turns a transcript (recorded with WantState) into Ledger_Trace lines.
func LedgerEvents(t int, sc *Scenario, tr *Transcript) []LedgerEvent {
	base := pow10(sc.Genesis.OLTDecimal)
	var evs []LedgerEvent
	eoaOf := func(h []HoldEntry, prev []HoldEntry) []string {
		set := map[string]bool{}
		for _, e := range append(append([]HoldEntry{}, h...), prev...) {
			// contract addresses are not externally owned: their code, not a signature, decides what leaves them
			if !isPool(e.O) && !strings.HasPrefix(e.O, "c:") {
				set[e.O] = true
			}
		}
		var out []string
		for o := range set {
			out = append(out, o)
		}
		sort.Strings(out)
		return out
	}
	if tr.InitState == nil {
		return nil
	}
	prevState := tr.InitState
	prevHold := Hold(prevState, base)
	evs = append(evs, LedgerEvent{T: t, Ev: "Init", H: 0, Hold: prevHold, Bad: nz(prevState.Bad), Signed: []string{}, Guilty: []string{},
		Eoa: eoaOf(prevHold, nil), Allow: map[string]int64{"OLT": 0}})
	wo := witnessOrder(sc)
	for _, b := range tr.Blocks {
		if b.State == nil {
			break
		}
		b.witnessOrder = wo
		hold := Hold(b.State, base)
		signed := map[string]bool{}
		for _, tx := range b.Txs {
			if !tx.Included {
				continue
			}
			for _, s := range tx.Signed {
				signed[s] = true
				// a validator key signed: its stake account pays the fee
				if v, ok := prevState.Vals[s]; ok {
					signed[v.Stake] = true
				}
			}
		}
		guilty := []string{}
		for v, f := range b.State.Frozen {
			if f.Height == b.H && f.Status == FrozenByzantine {
				if vr, ok := prevState.Vals[v]; ok {
					guilty = append(guilty, vr.Stake)
				}
			}
		}
		sort.Strings(guilty)
		allow := map[string]int64{"OLT": 0}
		for _, e := range b.Events {
			if e.Type == "block_rewards" {
				// the delegation pool's attribute carries the delegation rewards accrued in this block
				if v, ok := e.Attrs["0lt"+Hex([]byte(DelegationPoolKey))]; ok {
					n, _ := strconv.ParseInt(v, 10, 64)
					allow["OLT"] += n
				}
			}
		}
		wrapped := "ETH"
		if sc.Genesis.Erc20 {
			wrapped = "TTC"
		}
		for c, v := range b.allowWrapped(prevState, wrapped) {
			allow[c] += v
		}
		var sl []string
		for s := range signed {
			sl = append(sl, s)
		}
		sort.Strings(sl)
		evs = append(evs, LedgerEvent{T: t, Ev: "Block", H: b.H, Hold: hold, Bad: nz(b.State.Bad), Signed: nz(sl), Guilty: guilty,
			Eoa: eoaOf(hold, prevHold), Allow: allow})
		prevState, prevHold = b.State, hold
	}
	return evs
}

func nz(s []string) []string {
	if s == nil {
		return []string{}
	}
	return s
}

const (
	FrozenByzantine   = 2 // evidence.BYZANTINE_FAULT
	DelegationPoolKey = "00000000000000000001"
)

func witnessOrder(sc *Scenario) []string {
	g := genesisCache(sc.Genesis)
	type wa struct {
		n string
		a []byte
	}
	var ws []wa
	for _, n := range sc.Genesis.Witnesses {
		ws = append(ws, wa{n, g.Validators[n].Val.Addr})
	}
	sort.Slice(ws, func(i, j int) bool { return string(ws[i].a) < string(ws[j].a) })
	var out []string
	for _, w := range ws {
		out = append(out, w.n)
	}
	return out
}
