package vapp

import (
	"fmt"

	"github.com/Oneledger/protocol/action"
	ev "github.com/Oneledger/protocol/action/evidence"
	nd "github.com/Oneledger/protocol/action/network_delegation"
	rw "github.com/Oneledger/protocol/action/rewards"
	"github.com/Oneledger/protocol/action/staking"
	"github.com/Oneledger/protocol/action/transfer"
	"github.com/Oneledger/protocol/data/balance"
	"github.com/Oneledger/protocol/data/keys"
	"github.com/Oneledger/protocol/serialize"
)

// TxReq is an abstract transaction request: a kind, named arguments (model names and small
// integers) and optional overrides.  The concretiser turns it into signed bytes.
type TxReq struct {
	Kind    string                 `json:"kind"`
	A       map[string]interface{} `json:"a"`
	Signers []string               `json:"signers,omitempty"` // override the required signers (impersonation etc.)
	Price   int64                  `json:"price,omitempty"`   // fee price in units; default 1
	Gas     int64                  `json:"gas,omitempty"`     // fee gas limit; default 400000
	Memo    string                 `json:"memo,omitempty"`
	Cur     string                 `json:"cur,omitempty"`   // currency of amounts; default OLT
	Raw     []byte                 `json:"raw,omitempty"`   // pre-built bytes (hostile inputs)
	Class   string                 `json:"class,omitempty"` // adversarial class of the request ("" = ordinary), for attribution
}

func (t TxReq) S(k string) string {
	if v, ok := t.A[k]; ok {
		return fmt.Sprint(v)
	}
	return ""
}

func (t TxReq) I(k string) int64 {
	switch v := t.A[k].(type) {
	case int:
		return int64(v)
	case int64:
		return v
	case float64:
		return int64(v)
	}
	return 0
}

// AmountOf builds an action.Amount; the value may be given as int or as decimal string
// (for adversarial magnitudes).
func (t TxReq) AmountOf(k string) action.Amount {
	cur := t.Cur
	if cur == "" {
		cur = "OLT"
	}
	if s, ok := t.A[k].(string); ok {
		a, err := balance.NewAmountFromString(s, 10)
		if err != nil {
			panic(err)
		}
		return action.Amount{Currency: cur, Value: *a}
	}
	return action.Amount{Currency: cur, Value: *balance.NewAmountFromInt(t.I(k))}
}

// Built is a concrete transaction plus what the harness knows about it.
type Built struct {
	Req    TxReq
	Bytes  []byte
	Signed []string // names whose keys produced a valid signature over the raw tx
	Type   action.Type
	Msg    action.Msg
	RawTx  action.RawTx
	FeePay string // model name of the account the fee is charged to if the tx is accepted
}

func (g *Genesis) addr(name string) keys.Address {
	if name == "" {
		return nil
	}
	if a, ok := ethAddr(name); ok {
		return a
	}
	if v, ok := g.Validators[name]; ok {
		return v.Val.Addr
	}
	if len(name) > 1 && name[0] == 's' {
		if v, ok := g.Validators[name[1:]]; ok {
			return v.Stake.Addr
		}
	}
	return g.Acct(name).Addr
}

// signer returns the account holding the key of a model name (account, validator key, stake account).
func (g *Genesis) signer(name string) *Account {
	if v, ok := g.Validators[name]; ok {
		return v.Val
	}
	if len(name) > 1 && name[0] == 's' {
		if v, ok := g.Validators[name[1:]]; ok {
			return v.Stake
		}
	}
	return g.Acct(name)
}

var txCounter int

// Msg builds the message of a request and the default signer names.
func (g *Genesis) Msg(t TxReq) (action.Msg, []string) {
	switch t.Kind {
	case "SEND":
		return &transfer.Send{From: g.addr(t.S("from")), To: g.addr(t.S("to")), Amount: t.AmountOf("amt")}, []string{t.S("from")}
	case "SENDPOOL":
		return &transfer.SendPool{From: g.addr(t.S("from")), PoolName: t.S("pool"), Amount: t.AmountOf("amt")}, []string{t.S("from")}
	case "STAKE":
		v := g.Validators[t.S("v")]
		d := t.S("d")
		return &staking.Stake{ValidatorAddress: v.Val.Addr, StakeAddress: g.addr(d), ValidatorPubKey: v.Val.Pub,
			ValidatorECDSAPubKey: v.EcdsaPK, NodeName: v.Name, Stake: t.AmountOf("amt")}, []string{d, t.S("v")}
	case "UNSTAKE":
		return &staking.Unstake{ValidatorAddress: g.addr(t.S("v")), StakeAddress: g.addr(t.S("d")), Stake: t.AmountOf("amt")}, []string{t.S("d"), t.S("v")}
	case "WITHDRAW":
		return &staking.Withdraw{ValidatorAddress: g.addr(t.S("v")), StakeAddress: g.addr(t.S("d")), Stake: t.AmountOf("amt")}, []string{t.S("d"), t.S("v")}
	case "DELEGATE":
		return &nd.AddNetworkDelegation{DelegationAddress: g.addr(t.S("d")), Amount: t.AmountOf("amt")}, []string{t.S("d")}
	case "UNDELEGATE":
		return &nd.Undelegate{Delegator: g.addr(t.S("d")), Amount: t.AmountOf("amt")}, []string{t.S("d")}
	case "DELEG_WITHDRAW":
		return &nd.Withdraw{Delegator: g.addr(t.S("d")), Amount: t.AmountOf("amt")}, []string{t.S("d")}
	case "DELEG_REINVEST":
		return &nd.Reinvest{Delegator: g.addr(t.S("d")), Amount: t.AmountOf("amt")}, []string{t.S("d")}
	case "REWARD_WITHDRAW":
		return &rw.Withdraw{ValidatorAddress: g.addr(t.S("v")), SignerAddress: g.addr(t.S("signer")), WithdrawAmount: t.AmountOf("amt")}, []string{t.S("signer")}
	case "ALLEGATION":
		return &ev.Allegation{RequestID: t.S("id"), ValidatorAddress: g.addr(t.S("by")), MaliciousAddress: g.addr(t.S("accused")),
			BlockHeight: t.I("h"), ProofMsg: "proof"}, []string{t.S("by")}
	case "ALLEGATION_VOTE":
		return &ev.AllegationVote{RequestID: t.S("id"), Address: g.addr(t.S("by")), Choice: int8(t.I("choice"))}, []string{t.S("by")}
	case "RELEASE":
		return &ev.Release{ValidatorAddress: g.addr(t.S("v"))}, []string{t.S("v")}
	}
	if m, s, ok := g.msgExt(t); ok {
		return m, s
	}
	panic("unknown tx kind " + t.Kind)
}

// Build concretises a request into signed transaction bytes.
func (g *Genesis) Build(t TxReq) *Built {
	if t.Raw != nil {
		return &Built{Req: t, Bytes: t.Raw}
	}
	if t.Kind == "OLVM" {
		return g.buildOLVM(t)
	}
	msg, signers := g.Msg(t)
	if t.Signers != nil {
		signers = t.Signers
	}
	data, err := msg.Marshal()
	must(err)
	price, gas := t.Price, t.Gas
	if price == 0 {
		price = 1
	}
	if gas == 0 {
		gas = 400000
	}
	memo := t.Memo
	if memo == "" {
		txCounter++
		memo = fmt.Sprintf("m%d", txCounter)
	}
	raw := action.RawTx{Type: msg.Type(), Data: data, Memo: memo,
		Fee: action.Fee{Price: action.Amount{Currency: "OLT", Value: *balance.NewAmountFromInt(price)}, Gas: gas}}
	b := &Built{Req: t, Type: msg.Type(), Msg: msg, RawTx: raw}
	signed := action.SignedTx{RawTx: raw}
	rb := raw.RawBytes()
	required := msg.Signers()
	for i, n := range signers {
		a := g.signer(n)
		signed.Signatures = append(signed.Signatures, action.Signature{Signer: a.Pub, Signed: a.Sign(rb)})
		if i < len(required) && required[i].Equal(a.Addr) {
			b.Signed = append(b.Signed, g.Name(a.Addr))
		}
	}
	if len(signers) > 0 {
		b.FeePay = g.Name(g.signer(signers[0]).Addr)
	}
	out, err := serialize.GetSerializer(serialize.NETWORK).Serialize(signed)
	must(err)
	b.Bytes = out
	return b
}
