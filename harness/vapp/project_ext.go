package vapp

import (
	"encoding/json"
	"regexp"
	"sort"
	"strings"
	"time"
)

func jsonUnmarshal(b []byte, v interface{}) error { return json.Unmarshal(b, v) }

func parseTime(ts string) (time.Time, error) { return time.Parse(time.RFC3339Nano, ts) }

// ext decodes the record families added with later subsystems (proposals, trackers,
// domains, EVM); returns false for an unknown key.
var (
	reProp   = regexp.MustCompile(`^prop(Active|Passed|Failed|Finalized|FinalizeFailed)([0-9a-f]{64})$`)
	rePropFI = regexp.MustCompile(`^propFunds_i_([0-9a-f]{64})_0lt([0-9a-f]*)$`)
	rePropFT = regexp.MustCompile(`^propFunds_t_([0-9a-f]{64})$`)
)

func (p *projector) propName(id string) string {
	for _, n := range propNames {
		if string(PropID(n)) == id {
			return n
		}
	}
	return "x:" + id[:8]
}

func (p *projector) ext(k []byte, v []byte) bool {
	s := p.s
	ks := string(k)
	for store, pfx := range map[string]string{"ongoing": "etht_", "passed": "ethsuccess_", "failed": "ethfailed_"} {
		if strings.HasPrefix(ks, pfx) {
			var r struct {
				Type          int64
				State         int64
				SignedETHTx   []byte
				Witnesses     []string
				ProcessOwner  string
				FinalityVotes []byte
			}
			if err := json.Unmarshal(v, &r); err != nil {
				s.Bad = append(s.Bad, ks[:len(pfx)]+":unparsable")
				return true
			}
			t := TrackerRec{Store: store, Type: r.Type, State: r.State, Owner: p.nameOf0lt(r.ProcessOwner), Votes: []int64{}, Wits: []string{}}
			for _, b := range r.FinalityVotes {
				t.Votes = append(t.Votes, int64(b))
			}
			for _, w := range r.Witnesses {
				t.Wits = append(t.Wits, p.nameOf0lt(w))
			}
			name := ExtNameByHash(k[len(pfx):]) // the key carries the tracker name (hash of the external transaction)
			if old, dup := s.Trackers[name]; dup {
				// the same external transaction backs two tracker records
				s.Bad = append(s.Bad, "tracker:"+name+":in-"+old.Store+"-and-"+store)
			}
			s.Trackers[name] = t
			return true
		}
	}
	if m := reProp.FindStringSubmatch(ks); m != nil {
		var r struct {
			Type     int64           `json:"proposalType"`
			Status   int64           `json:"status"`
			Outcome  int64           `json:"outcome"`
			Proposer string          `json:"proposer"`
			FundDL   int64           `json:"fundingDeadline"`
			Goal     json.RawMessage `json:"fundingGoal"`
			VoteDL   int64           `json:"votingDeadline"`
			PassPct  int64           `json:"passPercent"`
			Update   string          `json:"updateGovernanace"`
		}
		if err := json.Unmarshal(v, &r); err != nil {
			s.Bad = append(s.Bad, ks+":unparsable")
			return true
		}
		n := p.propName(m[2])
		if old, dup := s.Props[n]; dup {
			s.Bad = append(s.Bad, "proposal:"+n+":in-"+old.Store+"-and-"+m[1])
		}
		s.Props[n] = PropRec{Store: m[1], Type: r.Type, Status: r.Status, Outcome: r.Outcome, Proposer: p.nameOf0lt(r.Proposer), FundDL: r.FundDL,
			VoteDL: r.VoteDL, Goal: p.num(ks+".goal", r.Goal), PassPct: r.PassPct, Update: r.Update}
		return true
	}
	if m := rePropFI.FindStringSubmatch(ks); m != nil {
		mm(s.PropFunds, p.propName(m[1]), p.name(m[2]), p.num(ks, v))
		return true
	}
	if m := rePropFT.FindStringSubmatch(ks); m != nil {
		s.PropFundT[p.propName(m[1])] = p.num(ks, v)
		return true
	}
	if strings.HasPrefix(ks, "propVotes_") && len(k) > len("propVotes_")+64+1 {
		id := ks[len("propVotes_") : len("propVotes_")+64]
		var r struct {
			Opinion int64 `json:"opinion"`
			Power   int64 `json:"power"`
		}
		_ = json.Unmarshal(v, &r)
		val := p.name(Hex(k[len("propVotes_")+64+1:]))
		n := p.propName(id)
		if s.PropVotes[n] == nil {
			s.PropVotes[n] = map[string]VoteRec{}
		}
		s.PropVotes[n][val] = VoteRec{Opinion: r.Opinion, Power: r.Power}
		return true
	}
	if strings.HasPrefix(ks, "d_") {
		return p.domain(ks, v)
	}
	if strings.HasPrefix(ks, "extBid") {
		return p.bid(ks, v)
	}
	if strings.HasPrefix(ks, "keeper_") || strings.HasPrefix(ks, "contracts") || strings.HasPrefix(ks, "evm") {
		return p.evm(k, v)
	}
	return false
}

func (p *projector) evidenceExt(k string, v []byte) bool {
	s := p.s
	if m := reSsvk.FindStringSubmatch(k); m != nil {
		var r struct {
			Status       int64
			FrozenHeight int64
			FrozenAt     *time.Time
			ReleaseAt    *time.Time
		}
		if err := json.Unmarshal(v, &r); err != nil {
			s.Bad = append(s.Bad, k+":unparsable")
			return true
		}
		f := FrozenRec{Status: r.Status, Height: r.FrozenHeight, At: -1, Released: -1}
		if r.FrozenAt != nil {
			f.At = int64(r.FrozenAt.Sub(GenesisTime).Seconds())
		}
		if r.ReleaseAt != nil {
			f.Released = int64(r.ReleaseAt.Sub(GenesisTime).Seconds())
		}
		f.IsFrozen = r.ReleaseAt == nil || !r.ReleaseAt.After(*r.FrozenAt)
		s.Frozen[p.name(m[1])] = f
		return true
	}
	if k == "es__atark" {
		var r struct{ Requests map[string]bool }
		_ = json.Unmarshal(v, &r)
		for id, ok := range r.Requests {
			if ok {
				s.ReqTracker = append(s.ReqTracker, id)
			}
		}
		sort.Strings(s.ReqTracker)
		return true
	}
	if m := reArk.FindStringSubmatch(k); m != nil {
		var r struct {
			ID               string
			ReporterAddress  string
			MaliciousAddress string
			Status           int64
			Votes            []struct {
				Address string
				Choice  int64
			}
		}
		if err := json.Unmarshal(v, &r); err != nil {
			s.Bad = append(s.Bad, k+":unparsable")
			return true
		}
		rr := ReqRec{Reporter: p.nameOf0lt(r.ReporterAddress), Accused: p.nameOf0lt(r.MaliciousAddress), Status: r.Status, Votes: map[string]int64{}, Order: []string{}}
		for _, vt := range r.Votes {
			n := p.nameOf0lt(vt.Address)
			rr.Votes[n] = vt.Choice
			rr.Order = append(rr.Order, n)
		}
		s.Requests[m[1]] = rr
		return true
	}
	return false
}
