package vapp

import (
	"encoding/json"
	"sort"
	"time"
)

func jsonUnmarshal(b []byte, v interface{}) error { return json.Unmarshal(b, v) }

func parseTime(ts string) (time.Time, error) { return time.Parse(time.RFC3339Nano, ts) }

// ext decodes the record families added with later subsystems (proposals, trackers,
// domains, EVM); returns false for an unknown key.
func (p *projector) ext(k []byte, v []byte) bool { return false }

func (p *projector) evidenceExt(k string, v []byte) bool {
	s := p.s
	if m := reSsvk.FindStringSubmatch(k); m != nil {
		var r struct {
			Status       int64
			FrozenHeight int64
			FrozenAt     *time.Time
			ReleaseAt    *time.Time
		}
		if err := json.Unmarshal(v, &r); err != nil {
			s.Bad = append(s.Bad, k+":unparsable")
			return true
		}
		f := FrozenRec{Status: r.Status, Height: r.FrozenHeight, At: -1, Released: -1}
		if r.FrozenAt != nil {
			f.At = int64(r.FrozenAt.Sub(GenesisTime).Seconds())
		}
		if r.ReleaseAt != nil {
			f.Released = int64(r.ReleaseAt.Sub(GenesisTime).Seconds())
		}
		f.IsFrozen = r.ReleaseAt == nil || !r.ReleaseAt.After(*r.FrozenAt)
		s.Frozen[p.name(m[1])] = f
		return true
	}
	if k == "es__atark" {
		var r struct{ Requests map[string]bool }
		_ = json.Unmarshal(v, &r)
		for id, ok := range r.Requests {
			if ok {
				s.ReqTracker = append(s.ReqTracker, id)
			}
		}
		sort.Strings(s.ReqTracker)
		return true
	}
	if m := reArk.FindStringSubmatch(k); m != nil {
		var r struct {
			ID               string
			ReporterAddress  string
			MaliciousAddress string
			Status           int64
			Votes            []struct {
				Address string
				Choice  int64
			}
		}
		if err := json.Unmarshal(v, &r); err != nil {
			s.Bad = append(s.Bad, k+":unparsable")
			return true
		}
		rr := ReqRec{Reporter: p.nameOf0lt(r.ReporterAddress), Accused: p.nameOf0lt(r.MaliciousAddress), Status: r.Status, Votes: map[string]int64{}, Order: []string{}}
		for _, vt := range r.Votes {
			n := p.nameOf0lt(vt.Address)
			rr.Votes[n] = vt.Choice
			rr.Order = append(rr.Order, n)
		}
		s.Requests[m[1]] = rr
		return true
	}
	return false
}
