package vapp

import "sort"

// StakeFailStory: the candidate validator stakes, unstakes everything (its record is left without power and is deleted
// at the end of the next block) and, in that next block, stakes again with a gas limit its fee step cannot meet - the
// handler runs to the end, the transaction fails; or stakes again properly and then sends an unstake of everything that
// fails the same way.  A failed request must leave nothing behind, in the stores or in what the validator store
// remembers until the end of the block.  Ordinary transfers go on around it.
func (g *Gen) StakeFailStory(id string, blocks int) *Scenario {
	sc := &Scenario{ID: id, Genesis: g.G}
	type ev struct {
		h  int
		tx STx
	}
	var evs []ev
	add := func(h int, kind string, a A, gas int64, class, path string) {
		if h >= 1 && h <= blocks {
			evs = append(evs, ev{h, STx{Req: TxReq{Kind: kind, A: a, Gas: gas, Class: class}, Path: path}})
		}
	}
	c := g.vals[len(g.vals)-1]
	if len(g.G.Candidates) > 0 {
		c = g.G.Candidates[0]
	}
	h := 1 + g.R.Intn(2)
	for h+4 <= blocks {
		amt := g.rng(3, 6)
		add(h, "STAKE", A{"v": c, "d": "s" + c, "amt": amt}, 0, "", "honest")
		u := h + 1 + g.R.Intn(2)
		add(u, "UNSTAKE", A{"v": c, "d": "s" + c, "amt": amt}, 0, "", "honest")
		path := []string{"honest", "direct"}[g.R.Intn(2)]
		low := int64(g.rng(1, 20000))
		switch g.R.Intn(3) {
		case 0, 1: // the stake whose fee step fails
			add(u+1, "STAKE", A{"v": c, "d": "s" + c, "amt": g.rng(3, 6)}, low, "gas:low", path)
		default: // a proper stake, then an unstake of everything whose fee step fails
			b := g.rng(3, 6)
			add(u+1, "STAKE", A{"v": c, "d": "s" + c, "amt": b}, 0, "", "honest")
			add(u+1, "UNSTAKE", A{"v": c, "d": "s" + c, "amt": b}, low, "gas:low", path)
			add(u+3, "UNSTAKE", A{"v": c, "d": "s" + c, "amt": b}, 0, "", "honest")
		}
		h = u + 4 + g.R.Intn(2)
	}
	for hh := 1; hh <= blocks; hh++ {
		if g.R.Intn(2) == 0 {
			g.curH = int64(hh)
			evs = append(evs, ev{hh, g.Tx("SEND", false)})
		}
	}
	sort.SliceStable(evs, func(i, j int) bool { return evs[i].h < evs[j].h })
	for hh := 1; hh <= blocks; hh++ {
		b := SBlock{DT: int64(g.rng(500000, 1500000)), Proposer: g.pick(g.vals)}
		for _, e := range evs {
			if e.h == hh {
				b.Txs = append(b.Txs, e.tx)
			}
		}
		sc.Blocks = append(sc.Blocks, b)
	}
	return sc
}
