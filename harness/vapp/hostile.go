package vapp

import (
	"encoding/json"
	"fmt"
	"math/rand"
	"sort"
	"strings"

	"github.com/Oneledger/protocol/action"
)

// HostileCase is one structurally valid, correctly signed, semantically hostile transaction
// (property C18): one field of the payload or of the envelope set to a hostile value.
type HostileCase struct {
	Kind  string `json:"kind"`
	Field string `json:"field"`
	Class string `json:"class"`
	Bytes []byte `json:"-"`
}

var hostileValues = []struct {
	class string
	raw   string
}{
	{"null", `null`},
	{"emptyString", `""`},
	{"negative", `-1`},
	{"zero", `0`},
	{"gtInt64", `9223372036854775808`},
	{"gtUint64", `18446744073709551616`},
	{"negativeString", `"-1"`},
	{"hugeString", `"340282366920938463463374607431768211456"`},
	{"notANumberString", `"12abc"`},
	{"emptyObject", `{}`},
	{"emptyArray", `[]`},
	{"boolean", `true`},
	{"longString", `"` + strings.Repeat("A", 300) + `"`},
	{"shortAddress", `"0lt0102"`},
	{"badHexAddress", `"0ltzzzzzzzzzzzzzzzzzzzzzzzzzzzzzzzzzzzzzzzz"`},
	{"unknownCurrency", `{"currency":"XYZ","value":"5"}`},
	{"nullValueAmount", `{"currency":"OLT","value":null}`},
	{"float", `1.5`},
	{"one", `1`}, {"two", `2`}, {"three", `3`}, {"four", `4`}, {"five", `5`}, {"six", `6`}, {"seven", `7`}, {"int64", `64`}, {"int255", `255`}, {"int256", `256`}, {"int65536", `65536`},
	{"delete", ``},
}

// ConfigKeys: the option keys of the configuration-update language (data/governance), and two it does not know.
var ConfigKeys = []string{
	"evidenceOptions.blockVotesDiff", "evidenceOptions.minVotesRequired", "evidenceOptions.penaltyBasePercentage", "evidenceOptions.penaltyPercentage",
	"feeOption.minFeeDecimal", "onsOptions.baseDomainPrice", "onsOptions.perBlockFees",
	"propOptions.codeChange.failedFundDistribution", "propOptions.codeChange.fundingDeadline", "propOptions.codeChange.fundingGoal",
	"propOptions.codeChange.initialFunding", "propOptions.codeChange.passPercentage", "propOptions.codeChange.passedFundDistribution",
	"propOptions.codeChange.votingDeadline", "propOptions.configUpdate.failedFundDistribution", "propOptions.configUpdate.fundingDeadline",
	"propOptions.configUpdate.fundingGoal", "propOptions.configUpdate.initialFunding", "propOptions.configUpdate.passPercentage",
	"propOptions.configUpdate.passedFundDistribution", "propOptions.configUpdate.votingDeadline", "propOptions.general.failedFundDistribution",
	"propOptions.general.fundingDeadline", "propOptions.general.fundingGoal", "propOptions.general.initialFunding", "propOptions.general.passPercentage",
	"propOptions.general.passedFundDistribution", "propOptions.general.votingDeadline", "stakingOptions.maturityTime",
	"stakingOptions.minSelfDelegationAmount", "stakingOptions.topValidatorCount", "rewardOptions.rewardInterval", "networkDelegOptions.rewardsMaturityTime",
}

func sortedRawKeys(m map[string]json.RawMessage) []string {
	ks := []string{}
	for k := range m {
		ks = append(ks, k)
	}
	sort.Strings(ks)
	return ks
}

func marshalSorted(m map[string]json.RawMessage) []byte {
	var parts []string
	for _, k := range sortedRawKeys(m) {
		parts = append(parts, fmt.Sprintf("%q:%s", k, m[k]))
	}
	return []byte("{" + strings.Join(parts, ",") + "}")
}

// resign rebuilds the signed transaction around a changed raw transaction, signed by the
// accounts that signed the original.
func (g *Genesis) resign(bt *Built, raw action.RawTx) []byte {
	if raw.Type == action.OLVM && bt.Type == action.OLVM {
		return g.resignOLVM(bt, raw)
	}
	orig := decodeSigned(bt.Bytes)
	st := action.SignedTx{RawTx: raw}
	rb := raw.RawBytes()
	for _, s := range orig.Signatures {
		h, err := s.Signer.GetHandler()
		if err != nil {
			continue
		}
		a := g.signer(g.Name(h.Address()))
		st.Signatures = append(st.Signatures, action.Signature{Signer: a.Pub, Signed: a.Sign(rb)})
	}
	return reserialize(st)
}

// HostileCases derives the field x class product from one accepted transaction.
func (g *Genesis) HostileCases(bt *Built) []HostileCase {
	var out []HostileCase
	orig := decodeSigned(bt.Bytes)
	var payload map[string]json.RawMessage
	if err := json.Unmarshal(orig.Data, &payload); err != nil {
		return nil
	}
	add := func(field, class string, data []byte) {
		raw := orig.RawTx
		raw.Data = data
		raw.Memo = raw.Memo + "-" + field + "-" + class
		out = append(out, HostileCase{Kind: bt.Req.Kind, Field: field, Class: class, Bytes: g.resign(bt, raw)})
	}
	for _, k := range sortedRawKeys(payload) {
		for _, hv := range hostileValues {
			m := map[string]json.RawMessage{}
			for kk, vv := range payload {
				m[kk] = vv
			}
			if hv.class == "delete" {
				delete(m, k)
			} else {
				m[k] = json.RawMessage(hv.raw)
			}
			add(k, hv.class, marshalSorted(m))
		}
		// one level down for object-valued fields (amounts)
		var sub map[string]json.RawMessage
		if json.Unmarshal(payload[k], &sub) == nil && len(sub) > 0 {
			for _, sk := range sortedRawKeys(sub) {
				for _, hv := range hostileValues {
					if hv.class == "unknownCurrency" || hv.class == "nullValueAmount" {
						continue
					}
					sm := map[string]json.RawMessage{}
					for kk, vv := range sub {
						sm[kk] = vv
					}
					if hv.class == "delete" {
						delete(sm, sk)
					} else {
						sm[sk] = json.RawMessage(hv.raw)
					}
					m := map[string]json.RawMessage{}
					for kk, vv := range payload {
						m[kk] = vv
					}
					m[k] = marshalSorted(sm)
					add(k+"."+sk, hv.class, marshalSorted(m))
				}
			}
		}
	}
	// configuration proposals: every option key the update language knows, with boundary values (the validation of a
	// proposed value runs in CheckTx and DeliverTx of the create request)
	if _, ok := payload["configUpdate"]; ok {
		for _, key := range ConfigKeys {
			for _, val := range []string{"0", "-1", "1", "100", "99999999999999999999", "x", ""} {
				m := map[string]json.RawMessage{}
				for kk, vv := range payload {
					m[kk] = vv
				}
				m["proposalType"] = json.RawMessage("32") // governance.ProposalTypeConfigUpdate
				m["configUpdate"] = json.RawMessage(fmt.Sprintf("%q", key+":"+val))
				add("configUpdate", key+":"+val, marshalSorted(m))
			}
		}
	}
	// envelope: fee, memo, type, payload that is not JSON, signature list
	env := func(field, class string, f func(raw *action.RawTx)) {
		raw := orig.RawTx
		raw.Memo = raw.Memo + "-" + field + "-" + class
		f(&raw)
		out = append(out, HostileCase{Kind: bt.Req.Kind, Field: "tx." + field, Class: class, Bytes: g.resign(bt, raw)})
	}
	env("fee.price", "unknownCurrency", func(r *action.RawTx) { r.Fee.Price.Currency = "XYZ" })
	env("fee.price", "negative", func(r *action.RawTx) { r.Fee.Price = TxReq{A: A{"x": -5}}.AmountOf("x") })
	env("fee.price", "huge", func(r *action.RawTx) {
		r.Fee.Price = TxReq{A: A{"x": "340282366920938463463374607431768211456"}}.AmountOf("x")
	})
	env("fee.gas", "negative", func(r *action.RawTx) { r.Fee.Gas = -1 })
	env("fee.gas", "zero", func(r *action.RawTx) { r.Fee.Gas = 0 })
	env("fee.gas", "maxInt64", func(r *action.RawTx) { r.Fee.Gas = 1<<63 - 1 })
	env("memo", "long", func(r *action.RawTx) { r.Memo = strings.Repeat("m", 5000) })
	env("type", "unknown", func(r *action.RawTx) { r.Type = action.Type(0x7777) })
	env("type", "eof", func(r *action.RawTx) { r.Type = action.EOF })
	env("data", "notJson", func(r *action.RawTx) { r.Data = []byte("not json at all") })
	env("data", "empty", func(r *action.RawTx) { r.Data = []byte{} })
	env("data", "jsonNull", func(r *action.RawTx) { r.Data = []byte("null") })
	env("data", "jsonArray", func(r *action.RawTx) { r.Data = []byte("[1,2,3]") })
	// signature list shapes (correctly serialised, semantically hostile)
	st := decodeSigned(bt.Bytes)
	st.Memo += "-sigs-empty"
	st.Signatures = []action.Signature{}
	out = append(out, HostileCase{Kind: bt.Req.Kind, Field: "tx.signatures", Class: "empty", Bytes: reserialize(st)})
	st2 := decodeSigned(bt.Bytes)
	st2.Memo += "-sigs-nokey"
	if len(st2.Signatures) > 0 {
		st2.Signatures[0].Signer.Data = nil
		out = append(out, HostileCase{Kind: bt.Req.Kind, Field: "tx.signatures", Class: "emptyKey", Bytes: reserialize(st2)})
	}
	return out
}

// ByteCases: arbitrary byte strings derived from a valid transaction (sampled part of C18).
func ByteCases(valid []byte, rng *rand.Rand, n int) []HostileCase {
	var out []HostileCase
	for i := 0; i < n; i++ {
		b := append([]byte{}, valid...)
		class := ""
		switch rng.Intn(6) {
		case 0:
			b = b[:rng.Intn(len(b))]
			class = "truncated"
		case 1:
			for k := 0; k < 1+rng.Intn(4); k++ {
				b[rng.Intn(len(b))] ^= byte(1 << uint(rng.Intn(8)))
			}
			class = "bitflips"
		case 2:
			b = make([]byte, rng.Intn(65536))
			rng.Read(b)
			class = "random"
		case 3:
			p := rng.Intn(len(b))
			b = append(append(append([]byte{}, b[:p]...), []byte(`{"a":[{"b":null}],`)...), b[p:]...)
			class = "jsonInsert"
		case 4:
			b = []byte(strings.Repeat("[", 1+rng.Intn(20000)))
			class = "deepNesting"
		case 5:
			s := strings.Replace(string(b), `"type":`, `"type":"x",`+`"Type":`, 1)
			b = []byte(s)
			class = "structureEdit"
		}
		out = append(out, HostileCase{Kind: "bytes", Field: "bytes", Class: class, Bytes: b})
	}
	return out
}
