package vapp

import (
	"bytes"
	"crypto/ecdsa"
	"math/big"
	"sort"
	"strings"

	"github.com/ethereum/go-ethereum/accounts/abi"
	ethcommon "github.com/ethereum/go-ethereum/common"
	ethtypes "github.com/ethereum/go-ethereum/core/types"
	ethcrypto "github.com/ethereum/go-ethereum/crypto"
	"github.com/ethereum/go-ethereum/rlp"

	"github.com/Oneledger/protocol/action"
	aeth "github.com/Oneledger/protocol/action/eth"
	"github.com/Oneledger/protocol/chains/ethereum/contract"
)

var lockRedeemABI = func() abi.ABI {
	a, err := abi.JSON(strings.NewReader(contract.LockRedeemABI))
	if err != nil {
		panic(err)
	}
	return a
}()

var erc20ABI = func() abi.ABI {
	a, err := abi.JSON(strings.NewReader(contract.ERC20BasicABI))
	if err != nil {
		panic(err)
	}
	return a
}()

var lockRedeemERCABI = func() abi.ABI {
	a, err := abi.JSON(strings.NewReader(contract.LockRedeemERCABI))
	if err != nil {
		panic(err)
	}
	return a
}()

func ethKey(name string) *ecdsa.PrivateKey {
	k, err := ethcrypto.ToECDSA(secret("ethkey", name))
	if err != nil {
		panic(err)
	}
	return k
}

// EthTx builds the embedded, signed ethereum transaction of a lock or redeem request.
// kind "lock": a call of lock() with value amt; "redeem": a call of redeem(amt).
// "erclock": transfer(lock contract, amt) on the token contract; "ercredeem": redeem(amt, token) on the ERC20 lock contract.
func EthTx(kind, owner string, amt, n int64) []byte { return ethTx(kind, owner, amt, n, false) }

func ethTx(kind, owner string, amt, n int64, noTo bool) []byte {
	var data []byte
	var err error
	value := big.NewInt(0)
	to := LockRedeemContract
	switch kind {
	case "lock":
		data, err = lockRedeemABI.Pack("lock")
		value = big.NewInt(amt)
	case "redeem":
		data, err = lockRedeemABI.Pack("redeem", big.NewInt(amt))
	case "erclock":
		data, err = erc20ABI.Pack("transfer", ErcLockContract, big.NewInt(amt))
		to = TokenContract
	case "ercredeem":
		data, err = lockRedeemERCABI.Pack("redeem", big.NewInt(amt), TokenContract)
		to = ErcLockContract
	default:
		panic("unknown external transaction kind " + kind)
	}
	must(err)
	tx := ethtypes.NewTransaction(uint64(n), to, value, 300000, big.NewInt(1), data)
	if noTo {
		// the same call data in a contract-creation transaction: there is no recipient
		tx = ethtypes.NewContractCreation(uint64(n), value, 300000, big.NewInt(1), data)
	}
	signed, err := ethtypes.SignTx(tx, ethtypes.NewEIP155Signer(big.NewInt(1)), ethKey(owner))
	must(err)
	raw, err := rlp.EncodeToBytes(signed)
	must(err)
	return raw
}

// TrackerName of an embedded transaction (the code uses the last 32 bytes of the raw bytes).
func TrackerName(raw []byte) ethcommon.Hash { return ethcommon.BytesToHash(raw) }

// WitnessIndex returns the index of a validator in the witness list as the store iterates it
// (by raw address bytes), or -1.
func (g *Genesis) WitnessIndex(v string) int64 {
	var addrs [][]byte
	for _, n := range g.Spec.Witnesses {
		addrs = append(addrs, g.Validators[n].Val.Addr)
	}
	sort.Slice(addrs, func(i, j int) bool { return bytes.Compare(addrs[i], addrs[j]) < 0 })
	id, ok := g.Validators[v]
	if !ok {
		return -1
	}
	for i, a := range addrs {
		if bytes.Equal(a, id.Val.Addr) {
			return int64(i)
		}
	}
	return -1
}

func (g *Genesis) msgEth(t TxReq) (action.Msg, []string, bool) {
	switch t.Kind {
	case "ETH_LOCK":
		if t.I("erc") != 0 {
			raw := ethTx("erclock", t.S("owner"), t.I("amt"), t.I("n"), t.I("noto") != 0)
			return &aeth.ERC20Lock{Locker: g.addr(t.S("owner")), ETHTxn: raw}, []string{t.S("owner")}, true
		}
		raw := ethTx("lock", t.S("owner"), t.I("amt"), t.I("n"), t.I("noto") != 0)
		if b, ok := t.A["rawtx"].([]byte); ok {
			raw = b
		}
		return &aeth.Lock{Locker: g.addr(t.S("owner")), ETHTxn: raw}, []string{t.S("owner")}, true
	case "ETH_REDEEM":
		if t.I("erc") != 0 {
			raw := ethTx("ercredeem", t.S("owner"), t.I("amt"), t.I("n"), t.I("noto") != 0)
			return &aeth.ERC20Redeem{Owner: g.addr(t.S("owner")), To: ethcrypto.PubkeyToAddress(ethKey(t.S("owner")).PublicKey), ETHTxn: raw}, []string{t.S("owner")}, true
		}
		raw := ethTx("redeem", t.S("owner"), t.I("amt"), t.I("n"), t.I("noto") != 0)
		return &aeth.Redeem{Owner: g.addr(t.S("owner")), To: ethcrypto.PubkeyToAddress(ethKey(t.S("owner")).PublicKey), ETHTxn: raw}, []string{t.S("owner")}, true
	case "ETH_REPORT":
		tk := t.S("tkind")
		if t.I("erc") != 0 {
			tk = "erc" + tk
		}
		raw := EthTx(tk, t.S("towner"), t.I("tamt"), t.I("tn"))
		idx := t.I("idx")
		if _, given := t.A["idx"]; !given {
			idx = g.WitnessIndex(t.S("by"))
			if idx < 0 {
				idx = 0
			}
		}
		return &aeth.ReportFinality{TrackerName: TrackerName(raw), Locker: g.addr(t.S("locker")), ValidatorAddress: g.addr(t.S("by")),
			VoteIndex: idx, Success: t.I("ok") != 0}, []string{t.S("by")}, true
	}
	return g.msgBid(t)
}

var extNames = func() map[string]string {
	m := map[string]string{}
	for _, x := range extPool {
		kind := x.kind
		m[Hex(EthTx(kind, x.owner, x.amt, x.n))] = ExtKey(kind, x.owner, x.amt, x.n)
		// the same pool on the ERC20 side; the model name keeps the plain kind (a family uses one side only)
		m[Hex(EthTx("erc"+kind, x.owner, x.amt, x.n))] = ExtKey(kind, x.owner, x.amt, x.n)
	}
	return m
}()

// ExtKey is the model name of an external transaction.
func ExtKey(kind, owner string, amt, n int64) string {
	return kind + ":" + owner + ":" + itoa(amt) + ":" + itoa(n)
}

func itoa(n int64) string { return new(big.Int).SetInt64(n).String() }

// ExtName maps the raw embedded transaction of a tracker to its model name.
func ExtName(raw []byte) string {
	if n, ok := extNames[Hex(raw)]; ok {
		return n
	}
	h := TrackerName(raw)
	return "x:" + Hex(h[:6])
}

var extByHash = func() map[string]string {
	m := map[string]string{}
	for _, x := range extPool {
		h := TrackerName(EthTx(x.kind, x.owner, x.amt, x.n))
		m[Hex(h[:])] = ExtKey(x.kind, x.owner, x.amt, x.n)
		he := TrackerName(EthTx("erc"+x.kind, x.owner, x.amt, x.n))
		m[Hex(he[:])] = ExtKey(x.kind, x.owner, x.amt, x.n)
	}
	return m
}()

// ExtNameByHash maps a tracker name (32 bytes) to the model name of its external transaction.
func ExtNameByHash(h []byte) string {
	if n, ok := extByHash[Hex(h)]; ok {
		return n
	}
	if len(h) > 6 {
		h = h[:6]
	}
	return "x:" + Hex(h)
}
