package vapp

import "github.com/Oneledger/protocol/action"

func (g *Genesis) msgEth(t TxReq) (action.Msg, []string, bool) { return nil, nil, false }

func (g *Genesis) buildOLVM(t TxReq) *Built {
	panic("OLVM not built yet")
}
