package vapp

import (
	"crypto/sha256"
	"encoding/hex"
	"strconv"

	"github.com/Oneledger/protocol/action"
	ba "github.com/Oneledger/protocol/external_apps/bid/bid_action"
	bd "github.com/Oneledger/protocol/external_apps/bid/bid_data"
)

// BidConvID is the identifier the bid application derives for a conversation: the hash of
// owner, asset name, bidder and the height of the block that created it.
func (g *Genesis) BidConvID(owner, asset, bidder string, h int64) bd.BidConvId {
	key := g.addr(owner).String() + asset + g.addr(bidder).String() + strconv.FormatInt(h, 10)
	sum := sha256.Sum256([]byte(key))
	return bd.BidConvId(hex.EncodeToString(sum[:]))
}

// convOf: requests name a conversation by the four things its identifier is derived from
// (cowner, casset, cbidder, ch); ch = 0 means "no identifier" (a request that opens one).
func (g *Genesis) convOf(t TxReq) bd.BidConvId {
	if t.I("ch") == 0 {
		return ""
	}
	return g.BidConvID(t.S("cowner"), t.S("casset"), t.S("cbidder"), t.I("ch"))
}

var bidAssetTypes = map[string]bd.BidAssetType{"ons": bd.BidAssetOns, "example": bd.BidAssetExample, "unknown": bd.BidAssetType(0x33)}

// msgBid: the six request kinds of the bid application (external_apps/bid).
func (g *Genesis) msgBid(t TxReq) (action.Msg, []string, bool) {
	by := t.S("by")
	switch t.Kind {
	case "BID_CREATE":
		return &ba.CreateBid{BidConvId: g.convOf(t), AssetOwner: g.addr(t.S("cowner")), AssetName: t.S("casset"), AssetType: bidAssetTypes[t.S("atype")],
			Bidder: g.addr(by), Amount: t.AmountOf("amt"), Deadline: GenesisTime.Unix() + t.I("dl")}, []string{by}, true
	case "BID_COUNTER":
		return &ba.CounterOffer{BidConvId: g.convOf(t), AssetOwner: g.addr(by), Amount: t.AmountOf("amt")}, []string{by}, true
	case "BID_CANCEL":
		return &ba.CancelBid{BidConvId: g.convOf(t), Bidder: g.addr(by)}, []string{by}, true
	case "BID_BIDDER_DEC":
		return &ba.BidderDecision{BidConvId: g.convOf(t), Bidder: g.addr(by), Decision: bd.BidDecision(t.I("dec"))}, []string{by}, true
	case "BID_OWNER_DEC":
		return &ba.OwnerDecision{BidConvId: g.convOf(t), Owner: g.addr(by), Decision: bd.BidDecision(t.I("dec"))}, []string{by}, true
	case "BID_EXPIRE":
		return &ba.ExpireBid{BidConvId: g.convOf(t), ValidatorAddress: g.addr(by)}, []string{by}, true
	}
	return nil, nil, false
}
