package vapp

import (
	"encoding/json"
	"math/big"
	"regexp"
	"strings"

	bd "github.com/Oneledger/protocol/external_apps/bid/bid_data"
	"github.com/Oneledger/protocol/serialize"
)

// BidRec is the projection of one conversation of the bid application: its record (one of the
// five stores extBidConv<State><id>) and its active offer (extBidOffer_ACTIVE_<id>), if any.
type BidRec struct {
	Store   string `json:"st"`
	Owner   string `json:"owner"`
	Asset   string `json:"asset"`
	AType   string `json:"atype"`
	Bidder  string `json:"bidder"`
	DL      int64  `json:"dl"` // seconds since genesis time
	Stores  int    `json:"stores"`
	Offer   string `json:"offer"` // "", "bid", "counter"
	Amt     int64  `json:"amt"`
	Status  int64  `json:"status"`
	Retired int    `json:"retired"` // number of inactive offer records
}

var (
	reBidConv  = regexp.MustCompile(`^extBidConv(Active|Succeed|Cancelled|Expired|Rejected)([0-9a-f]{64})$`)
	reBidOffer = regexp.MustCompile(`^extBidOffer_(ACTIVE|INACTIVE)_([0-9a-f]{64})(_\d+_-?\d+)?$`)
)

var bidStates = map[string]string{"Active": "active", "Succeed": "succeed", "Cancelled": "cancelled", "Expired": "expired", "Rejected": "rejected"}
var bidTypeNames = map[bd.BidAssetType]string{bd.BidAssetOns: "ons", bd.BidAssetExample: "example"}

func (p *projector) bid(ks string, v []byte) bool {
	s := p.s
	if m := reBidConv.FindStringSubmatch(ks); m != nil {
		c := &bd.BidConv{}
		if err := serialize.GetSerializer(serialize.LOCAL).Deserialize(v, c); err != nil {
			s.Bad = append(s.Bad, ks[:24]+":unparsable")
			return true
		}
		r := s.Bids[m[2]]
		if r.Stores > 0 {
			// the same conversation is recorded in two stores
			s.Bad = append(s.Bad, "bid:"+m[2][:8]+":in-"+r.Store+"-and-"+bidStates[m[1]])
		}
		r.Store, r.Owner, r.Asset, r.Bidder = bidStates[m[1]], p.name(Hex(c.AssetOwner)), c.AssetName, p.name(Hex(c.Bidder))
		r.AType = bidTypeNames[c.AssetType]
		r.DL = c.DeadlineUTC - GenesisTime.Unix()
		r.Stores++
		s.Bids[m[2]] = r
		return true
	}
	if m := reBidOffer.FindStringSubmatch(ks); m != nil {
		var o struct {
			OfferType    int64                           `json:"offerType"`
			Amount       struct{ Value json.RawMessage } `json:"amount"`
			AmountStatus int64                           `json:"amountStatus"`
		}
		if err := json.Unmarshal(v, &o); err != nil {
			s.Bad = append(s.Bad, ks[:24]+":unparsable")
			return true
		}
		r := s.Bids[m[2]]
		if m[1] == "INACTIVE" {
			r.Retired++
			if o.AmountStatus == int64(bd.BidAmountLocked) {
				s.Bad = append(s.Bad, "bid:"+m[2][:8]+":retired-offer-still-locked")
			}
		} else {
			r.Offer = map[int64]string{int64(bd.TypeBidOffer): "bid", int64(bd.TypeCounterOffer): "counter"}[o.OfferType]
			key := strings.TrimSuffix(ks[:32], "_") + ".amount"
			if b, ok := new(big.Int).SetString(strings.Trim(string(o.Amount.Value), "\""), 10); ok && o.OfferType == int64(bd.TypeCounterOffer) && b.Sign() >= 0 && (!b.IsInt64() || b.Int64() >= Lim) {
				// the owner's counter offer is an asking price, not an amount anybody holds: any magnitude is legitimate, it is
				// clamped without being flagged (a bid is locked money and is flagged)
				r.Amt = Lim - 1
			} else {
				r.Amt = p.num(key, o.Amount.Value)
			}
			r.Status = o.AmountStatus
		}
		s.Bids[m[2]] = r
		return true
	}
	return false
}
