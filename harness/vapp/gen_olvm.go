package vapp

import (
	"fmt"
	"hash/fnv"
	"math/rand"
	"sort"
)

// OlvmStory builds a history mixing native and OLVM transactions: the EVM accounts deploy the
// known programs, call them with and without value, move value between EVM accounts, native
// accounts, fresh addresses and contracts, natives pay EVM accounts and contracts; deviations:
// sequence numbers too low and with gaps, values and gas limits the sender cannot pay, gas limits
// below the intrinsic cost, the wrong chain id, somebody else's signature, a memo that is not the
// sequence number.  The bookkeeping here only steers; it is not an oracle.
func (g *Gen) OlvmStory(id string, blocks int) *Scenario {
	sc := &Scenario{ID: id, Genesis: g.G}
	type ev struct {
		h  int
		tx STx
	}
	var evs []ev
	nonce := map[string]int{}
	add := func(h int, a A, path string, class string, gas, price int64, signers []string, memo string) {
		if h < 1 || h > blocks {
			return
		}
		t := TxReq{Kind: "OLVM", A: a, Gas: gas, Price: price, Class: class, Signers: signers, Memo: memo}
		evs = append(evs, ev{h, STx{Req: t, Path: path}})
	}
	eoas := g.G.EthAccounts[:3]
	// the fork that switches the EVM on may lie inside the history (family olvmfork): requests before it - checked by the
	// mempool or put into a block unchecked - must be refused; one put into the fork block itself executes
	fork := int(g.G.Fork)
	if fork < 1 {
		fork = 1
	}
	for hh := 1; hh < fork; hh++ {
		for k := g.R.Intn(3); k > 0; k-- {
			f := g.pick(eoas)
			path := "direct"
			if g.R.Intn(3) == 0 {
				path = "honest"
			}
			a := A{"from": f, "to": g.pick(eoas), "amt": g.rng(0, 900), "nonce": 0, "data": ""}
			if g.R.Intn(3) == 0 {
				a = A{"from": f, "to": "", "amt": 0, "nonce": 0, "data": "create:store"}
			}
			add(hh, a, path, "fork:before", 200000, 1, nil, "")
		}
		if g.R.Intn(2) == 0 { // natives pay EVM accounts before the fork
			evs = append(evs, ev{hh, STx{Req: TxReq{Kind: "SEND", A: A{"from": g.pick(g.accts), "to": g.pick(eoas), "amt": g.rng(1, 2000)}}, Path: "honest"}})
		}
	}
	if fork > 1 && g.R.Intn(2) == 0 {
		f := eoas[2] // e3 deploys nothing: its sequence number is free
		add(fork, A{"from": f, "to": g.pick(eoas[:2]), "amt": g.rng(0, 900), "nonce": 0, "data": ""}, "direct", "", 120000, 1, nil, "")
		nonce[f]++
	}
	// e4 spends everything it has in one transfer (gas limit = the 21000 a plain transfer uses), is paid again by a native
	// account and goes on with its next sequence number: an account at balance zero keeps its record
	if len(g.G.EthAccounts) > 3 && g.R.Intn(2) == 0 {
		d := g.G.EthAccounts[3]
		h0 := fork + 2 + g.R.Intn(3)
		add(h0, A{"from": d, "to": "e1", "amt": g.G.Balance - 21000, "nonce": 0, "data": ""}, "honest", "", 21000, 1, nil, "")
		t := TxReq{Kind: "SEND", A: A{"from": "a1", "to": d, "amt": 60000}}
		if h0+2 <= blocks {
			evs = append(evs, ev{h0 + 2, STx{Req: t, Path: "honest"}})
		}
		add(h0+4, A{"from": d, "to": "e2", "amt": 100, "nonce": 1, "data": ""}, "honest", "", 21000, 1, nil, "")
	}
	progs := []string{"store", "forward", "probe", "revert", "loop", "suicide", "toggle"}
	deployed := map[string]string{} // program -> contract name
	// deployments in the first blocks, sequence numbers as they come
	h := fork + 1 // the EVM is enabled by the BeginBlock of the fork height: the mempool check accepts OLVM requests from then on
	for i, p := range progs {
		if g.R.Intn(8) == 0 && p != "store" {
			continue
		}
		c := eoas[i%2] // e1 and e2 deploy
		v := 0
		if g.R.Intn(3) == 0 && p != "revert" {
			v = g.rng(1, 500) // a creation with value
		}
		add(h, A{"from": c, "to": "", "amt": v, "nonce": nonce[c], "data": "create:" + p}, "honest", "", 200000, 1, nil, "")
		deployed[p] = fmt.Sprintf("c:%s:%d", c, nonce[c])
		nonce[c]++
		if g.R.Intn(2) == 0 {
			h++
		}
	}
	if g.R.Intn(3) == 0 { // creation code that reverts: no contract, gas paid, sequence number raised
		c := eoas[g.R.Intn(2)]
		add(h+1, A{"from": c, "to": "", "amt": g.rng(0, 300), "nonce": nonce[c], "data": "create:badinit"}, "honest", "", 200000, 1, nil, "")
		nonce[c]++
	}
	start := h + 2
	// nested calls (programs "nest" and "inner", deployed by the third account): an inner frame that creates an account,
	// touches accounts for the first time and fails, while the outer frame goes on and pays.  These steps draw from a
	// source of their own, so the rest of the history is what it was before they existed.
	hh := fnv.New64a()
	hh.Write([]byte(id))
	r2 := rand.New(rand.NewSource(int64(hh.Sum64() >> 1)))
	nestC, innerC := "", ""
	if r2.Intn(3) != 0 {
		d := eoas[2]
		innerC = fmt.Sprintf("c:%s:%d", d, nonce[d])
		add(h+1, A{"from": d, "to": "", "amt": 0, "nonce": nonce[d], "data": "create:inner"}, "honest", "", 300000, 1, nil, "")
		nonce[d]++
		nestC = fmt.Sprintf("c:%s:%d", d, nonce[d])
		add(h+1, A{"from": d, "to": "", "amt": 0, "nonce": nonce[d], "data": "create:nest"}, "honest", "", 300000, 1, nil, "")
		nonce[d]++
	}
	natives := append([]string{}, g.accts...)
	anyone := func() string {
		switch g.R.Intn(6) {
		case 0:
			return g.pick(natives)
		case 1:
			return fmt.Sprintf("n%d", g.R.Intn(3))
		case 2:
			if c, ok := deployed["store"]; ok {
				return c
			}
		}
		return g.pick(eoas)
	}
	target := func() string { // where a forwarder / self-destruct sends value: accounts, the counter, the failing programs
		switch g.R.Intn(5) {
		case 0:
			if c, ok := deployed["revert"]; ok {
				return c
			}
		case 1:
			if c, ok := deployed["store"]; ok {
				return c
			}
		}
		for {
			if a := anyone(); a[0] != 'c' {
				return a
			}
		}
	}
	// in one block: a request of an EVM account that is refused when it is executed, a native payment to that
	// account, and a valid request of the same account - what the refused request left in memory must not reach the third
	sandwich := 0
	if g.R.Intn(2) == 0 && start+1 < blocks {
		sandwich = g.rng(start, blocks-1)
	}
	for h := start; h <= blocks; h++ {
		if h == sandwich {
			f := g.pick(eoas)
			n := nonce[f]
			switch g.R.Intn(3) {
			case 0:
				add(h, A{"from": f, "to": anyone(), "amt": g.rng(0, 900), "nonce": n + g.rng(1, 3), "data": ""}, "honest", "nonce:gap", 120000, 1, nil, "")
			case 1:
				add(h, A{"from": f, "to": anyone(), "amt": g.G.Balance + int64(g.rng(1, 1000)), "nonce": n, "data": ""}, "direct", "amt:over-balance", 120000, 1, nil, "")
			default:
				add(h, A{"from": f, "to": anyone(), "amt": 1, "nonce": n, "data": ""}, "direct", "gas:unpayable", 4000000, 10, nil, "")
			}
			g.curH = int64(h)
			evs = append(evs, ev{h, STx{Req: TxReq{Kind: "SEND", A: A{"from": g.pick(natives), "to": f, "amt": g.rng(100, 3000)}}, Path: "honest"}})
			add(h, A{"from": f, "to": anyone(), "amt": g.rng(0, 900), "nonce": n, "data": ""}, "honest", "", 120000, 1, nil, "")
			nonce[f]++
		}
		for k := g.R.Intn(4); k > 0; k-- {
			f := g.pick(eoas)
			n := nonce[f]
			a := A{"from": f, "to": anyone(), "amt": g.rng(0, 900), "nonce": n, "data": ""}
			path, class := "honest", ""
			gas, price := int64(120000), int64(1)
			var signers []string
			memo := ""
			valid := true
			switch g.R.Intn(16) {
			case 0, 1, 2: // call a program
				p := g.pick(progs)
				if c, ok := deployed[p]; ok {
					a["to"] = c
					switch p {
					case "forward", "suicide":
						a["data"] = "arg:" + target()
					case "probe":
						a["data"] = "arg:" + []string{anyone(), f, c}[g.R.Intn(3)]
						a["amt"] = g.rng(0, 50)
					}
					if p == "suicide" {
						delete(deployed, p)
					}
				}
			case 3: // the toggling counter: every other call earns a storage refund
				if c, ok := deployed["toggle"]; ok {
					a["to"], a["amt"] = c, 0
				}
			case 4: // sequence number with a gap: passes the mempool check, must not execute
				a["nonce"] = n + g.rng(1, 3)
				class, valid = "nonce:gap", false
			case 5: // sequence number too low
				if n > 0 {
					a["nonce"] = g.R.Intn(n)
					class, path, valid = "nonce:low", "direct", false
				}
			case 6: // more value than the sender owns
				a["amt"] = g.G.Balance + int64(g.rng(1, 1000))
				class, path, valid = "amt:over-balance", "direct", false
			case 7: // a gas limit the sender cannot pay for
				gas, price = 4000000, 10
				class, path, valid = "gas:unpayable", "direct", false
			case 8: // a gas limit below the intrinsic cost
				gas = int64(g.rng(1000, 20999))
				class, path, valid = "gas:below-intrinsic", "direct", false
			case 9:
				a["chain"] = "wrong"
				class, path, valid = "chain:wrong", "direct", false
			case 10: // signed by another account's key
				signers = []string{eoas[(indexOf(eoas, f)+1)%len(eoas)]}
				class, path, valid = "signer:other", "direct", false
			case 11:
				memo = "not-the-nonce"
				class, path, valid = "memo:wrong", "direct", false
			case 12: // a higher gas price
				price = int64(g.rng(2, 5))
			}
			if path == "direct" && g.R.Intn(3) == 0 {
				path = "honest" // the mempool check sees it first
			}
			add(h, a, path, class, gas, price, signers, memo)
			if valid {
				nonce[f]++
			}
		}
		if nestC != "" && h > start && r2.Intn(3) == 0 {
			f := eoas[r2.Intn(len(eoas))]
			others := []string{}
			for _, o := range append(append([]string{}, eoas...), natives...) {
				if o != f {
					others = append(others, o)
				}
			}
			tgt := others[r2.Intn(len(others))]
			third := others[r2.Intn(len(others))]
			for third == tgt {
				third = others[r2.Intn(len(others))]
			}
			add(h, A{"from": f, "to": nestC, "amt": 1 + r2.Intn(900), "nonce": nonce[f], "data": "nest:" + tgt + "|" + third + "|" + innerC}, "honest", "", 400000, 1, nil, "")
			nonce[f]++
		}
		if g.R.Intn(3) == 0 { // natives pay EVM accounts and contracts
			g.curH = int64(h)
			to := anyone()
			if g.R.Intn(3) == 0 {
				if c, ok := deployed[g.pick(progs)]; ok {
					to = c
				}
			}
			t := TxReq{Kind: "SEND", A: A{"from": g.pick(natives), "to": to, "amt": g.rng(1, 2000)}}
			evs = append(evs, ev{h, STx{Req: t, Path: "honest"}})
		}
	}
	sort.SliceStable(evs, func(i, j int) bool { return evs[i].h < evs[j].h })
	for h := 1; h <= blocks; h++ {
		b := SBlock{DT: int64(g.rng(500000, 1500000)), Proposer: g.pick(g.vals)}
		for _, e := range evs {
			if e.h == h {
				b.Txs = append(b.Txs, e.tx)
			}
		}
		sc.Blocks = append(sc.Blocks, b)
	}
	return sc
}

func indexOf(xs []string, x string) int {
	for i, y := range xs {
		if y == x {
			return i
		}
	}
	return 0
}
