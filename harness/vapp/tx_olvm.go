package vapp

import (
	"encoding/hex"
	"fmt"
	"math/big"
	"strconv"
	"strings"

	"github.com/Oneledger/protocol/action"
	aolvm "github.com/Oneledger/protocol/action/olvm"
	"github.com/Oneledger/protocol/data/balance"
	"github.com/Oneledger/protocol/data/keys"
	"github.com/Oneledger/protocol/serialize"
	"github.com/Oneledger/protocol/utils"
	ethcmn "github.com/ethereum/go-ethereum/common"
	ethtypes "github.com/ethereum/go-ethereum/core/types"
	ethcrypto "github.com/ethereum/go-ethereum/crypto"
)

// Programs: hand-assembled EVM runtime code of the contracts the OLVM workloads deploy.  The
// ledger specification (Olvm.tla) knows each kind by name and what it does with value.
var olvmRuntime = map[string]string{
	// counter: slot0++ ; accepts value and keeps it
	"store": "60005460010160005500",
	// always reverts
	"revert": "60006000fd",
	// loops until the gas is gone
	"loop": "5b600056",
	// forwards the call's value to the address in calldata[0:32]
	"forward": "600060006000600034600035" + "5a" + "f1" + "00",
	// logs BALANCE(calldata[0:32]) as a LOG0 with 32 bytes of data
	"probe": "60003531600052602060" + "00a000",
	// self-destructs to the address in calldata[0:32]
	"suicide": "600035ff",
	// slot0 := (slot0 == 0): every other call clears the slot and earns a storage refund
	"toggle": "6000541560005500",
	// helper of "nest": pays 1 to the unused address 0x..dead (an account comes into being), reads BALANCE of the two
	// addresses in calldata[0:64] (first touch of both in the transaction) and reverts - nothing of it may remain
	"inner": "6000600060006000600161dead5af150" + "600035315060203531506000" + "6000fd",
	// calls the program at calldata[64:96] with its own value and calldata[0:64] (that call fails), then forwards the
	// value to the address in calldata[0:32], like "forward"
	"nest": "3660006000376000600060406000346040355af150" + "600060006000600034600035" + "5a" + "f1" + "00",
}

// initCode wraps runtime code (at most 32 bytes) into creation code returning it.
func initCode(runtime []byte) []byte {
	n := len(runtime)
	if n > 32 && n < 256 {
		// PUSH1 n DUP1 PUSH1 11 PUSH1 0 CODECOPY PUSH1 0 RETURN, then the runtime code
		return append([]byte{0x60, byte(n), 0x80, 0x60, 0x0b, 0x60, 0x00, 0x39, 0x60, 0x00, 0xf3}, runtime...)
	}
	if n == 0 || n > 32 {
		panic("runtime length")
	}
	out := []byte{byte(0x60 + n - 1)} // PUSHn
	out = append(out, runtime...)
	out = append(out, 0x60, 0x00, 0x52, 0x60, byte(n), 0x60, byte(32-n), 0xf3) // PUSH1 0 MSTORE PUSH1 n PUSH1 32-n RETURN
	return out
}

// OlvmData builds the data field of an OLVM request: "create:<kind>" (creation code of a
// program; kind "badinit" is creation code that reverts), "arg:<name>" (a 32-byte word holding
// an address) or "" (plain call / transfer).
func (g *Genesis) OlvmData(spec string) []byte {
	switch {
	case spec == "":
		return nil
	case spec == "create:badinit":
		return []byte{0x60, 0x00, 0x60, 0x00, 0xfd}
	case len(spec) > 7 && spec[:7] == "create:":
		rt, ok := olvmRuntime[spec[7:]]
		if !ok {
			panic("unknown program " + spec)
		}
		b, _ := hex.DecodeString(rt)
		return initCode(b)
	case len(spec) > 4 && spec[:4] == "arg:":
		return ethcmn.LeftPadBytes(g.addr(spec[4:]), 32)
	case len(spec) > 5 && spec[:5] == "nest:": // nest:<target>|<third>|<inner>: three address words
		var out []byte
		for _, nm := range strings.Split(spec[5:], "|") {
			out = append(out, ethcmn.LeftPadBytes(g.addr(nm), 32)...)
		}
		return out
	case len(spec) > 4 && spec[:4] == "hex:":
		b, err := hex.DecodeString(spec[4:])
		must(err)
		return b
	}
	panic("bad olvm data " + spec)
}

// buildOLVM concretises an OLVM request: args from (e<N>), to (model name or "" for a
// creation), amt (value), nonce, data (see OlvmData), chain ("" right, "wrong"), memo ("" =
// the nonce, as the handler demands).
func (g *Genesis) buildOLVM(t TxReq) *Built {
	from := NewEthAcct(t.S("from"))
	var to *keys.Address
	var ethTo *ethcmn.Address
	if n := t.S("to"); n != "" {
		a := g.addr(n)
		to = &a
		e := ethcmn.BytesToAddress(a)
		ethTo = &e
	}
	nonce := uint64(t.I("nonce"))
	data := g.OlvmData(t.S("data"))
	price, gas := t.Price, t.Gas
	if price == 0 {
		price = 1
	}
	if gas == 0 {
		gas = 120000
	}
	chainID := utils.HashToBigInt(g.Spec.ChainID)
	if t.S("chain") == "wrong" {
		chainID = new(big.Int).Add(chainID, big.NewInt(1))
	}
	value := t.AmountOf("amt")
	msg := aolvm.Transaction{Nonce: nonce, From: from.Addr, To: to, Amount: value, Data: data, ChainID: chainID}
	body, err := msg.Marshal()
	must(err)
	memo := t.Memo
	if memo == "" {
		memo = strconv.FormatUint(nonce, 10)
	}
	raw := action.RawTx{Type: action.OLVM, Data: body, Memo: memo,
		Fee: action.Fee{Price: action.Amount{Currency: "OLT", Value: *balance.NewAmountFromInt(price)}, Gas: gas}}
	ethTx := ethtypes.NewTx(&ethtypes.LegacyTx{Nonce: nonce, To: ethTo, Value: value.Value.BigInt(), Gas: uint64(gas), GasPrice: big.NewInt(price), Data: data})
	signer := ethtypes.NewEIP155Signer(chainID)
	key := from.Priv
	if len(t.Signers) > 0 { // impersonation: somebody else's key signs
		key = NewEthAcct(t.Signers[0]).Priv
	}
	sig, err := ethcrypto.Sign(signer.Hash(ethTx).Bytes(), key)
	must(err)
	pub := ethcrypto.CompressPubkey(&key.PublicKey)
	signed := action.SignedTx{RawTx: raw, Signatures: []action.Signature{{Signer: keys.PublicKey{KeyType: keys.SECP256K1, Data: pub}, Signed: sig}}}
	out, err := serialize.GetSerializer(serialize.NETWORK).Serialize(signed)
	must(err)
	b := &Built{Req: t, Type: action.OLVM, Msg: &msg, RawTx: raw, Bytes: out, FeePay: t.S("from")}
	if len(t.Signers) == 0 {
		b.Signed = []string{t.S("from")}
	}
	return b
}

var _ = fmt.Sprint

// resignOLVM signs a changed OLVM raw transaction the way its sender would: over the legacy
// ethereum transaction the handler derives from the (changed) payload, with a memo that is the
// payload's sequence number - so that hostile payloads get past the signature check and reach
// the code behind it.  A payload that does not parse is signed as if it were the original.
func (g *Genesis) resignOLVM(bt *Built, raw action.RawTx) []byte {
	var tx aolvm.Transaction
	if err := tx.Unmarshal(raw.Data); err != nil {
		_ = tx.Unmarshal(bt.RawTx.Data)
	}
	var ethTo *ethcmn.Address
	if tx.To != nil {
		e := ethcmn.BytesToAddress(*tx.To)
		ethTo = &e
	}
	value := tx.Amount.Value.BigInt()
	if value == nil {
		value = new(big.Int)
	}
	price := raw.Fee.Price.Value.BigInt()
	if price == nil {
		price = new(big.Int)
	}
	raw.Memo = strconv.FormatUint(tx.Nonce, 10)
	ethTx := ethtypes.NewTx(&ethtypes.LegacyTx{Nonce: tx.Nonce, To: ethTo, Value: value, Gas: uint64(raw.Fee.Gas), GasPrice: price, Data: tx.Data})
	signer := ethtypes.NewEIP155Signer(utils.HashToBigInt(g.Spec.ChainID))
	key := NewEthAcct(bt.Req.S("from")).Priv
	sig, err := ethcrypto.Sign(signer.Hash(ethTx).Bytes(), key)
	must(err)
	pub := ethcrypto.CompressPubkey(&key.PublicKey)
	return reserialize(action.SignedTx{RawTx: raw, Signatures: []action.Signature{{Signer: keys.PublicKey{KeyType: keys.SECP256K1, Data: pub}, Signed: sig}}})
}
