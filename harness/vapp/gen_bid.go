package vapp

import "sort"

// assets in play: two first-level names of the registry and an asset of the application's
// example type (no registry behind it: anybody may be named as its owner)
var bidDomains = []string{"alpha.ol", "beta.ol"}
var bidExamples = []string{"ex1"}

var BidKinds = []string{"BID_CREATE", "BID_CREATE", "BID_COUNTER", "BID_CANCEL", "BID_BIDDER_DEC", "BID_OWNER_DEC", "BID_EXPIRE", "DOM_CREATE", "DOM_SELL", "SEND"}

// BidStory builds a history of the bid application (external_apps/bid): names are registered,
// bidders open conversations on them (and on an example asset) with a deadline, owners answer
// with counter offers, accept or reject, bidders bid again below the counter offer, accept,
// reject or cancel, conversations run into their deadline and are closed by the block-end
// routine, anybody sends the expiry request early - and at every step strangers try the
// owner's and the bidder's requests, amounts are on the wrong side of the active offer,
// requests arrive around the deadline and on closed conversations, two bidders compete for one
// name and the loser's conversation is left with an asset that changed hands.  Block times are
// fixed first so that deadlines can be placed on, just before and just after a block's time.
// The model kept here only steers the generator; it is not an oracle.
func (g *Gen) BidStory(id string, blocks int) *Scenario {
	sc := &Scenario{ID: id, Genesis: g.G}
	base, pb := int(g.G.Ons.Base), int(g.G.Ons.PerBlock)
	times := make([]int64, blocks+2)
	dts := make([]int64, blocks+2)
	for h := 1; h <= blocks+1; h++ {
		dts[h] = int64(g.rng(500000, 1500000))
		times[h] = times[h-1] + dts[h]
	}
	type ev struct {
		h  int
		tx STx
	}
	var evs []ev
	add := func(h int, kind string, a A, hostile bool, class string) {
		if h < 1 || h > blocks {
			return
		}
		g.curH = int64(h)
		t := TxReq{Kind: kind, A: a}
		g.class, g.hclass = "", ""
		if hostile {
			g.hclass = []string{"cur", "signer", "gas"}[g.R.Intn(3)]
			if _, has := a["amt"]; has && g.R.Intn(2) == 0 {
				g.hclass = "amt"
				a["amt"] = g.amount(100, 2000, true)
			}
		}
		if class != "" {
			g.class = class
		}
		st := g.finish(t, hostile)
		if !hostile && g.R.Intn(4) == 0 {
			st.Path = "direct" // time-dependent rules are checked against the previous block's time by CheckTx
		}
		evs = append(evs, ev{h, st})
	}
	people := append(append([]string{}, g.accts...), "sv1", "sv2")
	other := func(x string) string {
		for {
			if y := g.pick(people); y != x {
				return y
			}
		}
	}
	owner := map[string]string{}
	atype := map[string]string{}
	for _, n := range bidDomains {
		o := g.pick(people)
		add(1+g.R.Intn(2), "DOM_CREATE", A{"owner": o, "benef": o, "name": n, "uri": "", "amt": base + pb*(blocks+8+g.R.Intn(6))}, false, "")
		owner[n], atype[n] = o, "ons"
	}
	for _, n := range bidExamples {
		owner[n], atype[n] = g.pick(people), "example"
	}
	assets := append(append([]string{}, bidDomains...), bidExamples...)
	firstAfter := func(dl int64) int { // first block whose time is later than the deadline
		for h := 1; h <= blocks; h++ {
			if times[h] > dl {
				return h
			}
		}
		return blocks + 1
	}
	unknownType := g.R.Intn(6) == 0
	for c, nconv := 0, g.rng(2, 4); c < nconv; c++ {
		asset := g.pick(assets)
		o := owner[asset]
		claimed := o
		if g.R.Intn(8) == 0 {
			claimed = other(o) // somebody who does not own the asset is named as its owner
		}
		b := other(o)
		hc := g.rng(3, blocks-5)
		end := hc + g.rng(3, 8)
		if end > blocks {
			end = blocks
		}
		dl := times[end] + []int64{-1, 0, 0, 1, int64(g.rng(-300000, 300000))}[g.R.Intn(5)]
		if g.R.Intn(10) == 0 {
			dl = times[hc] - int64(g.rng(1, 1000)) // a deadline that has passed already
		}
		amt := g.rng(50, 500)
		at := atype[asset]
		cls := ""
		if unknownType {
			at, cls, unknownType = "unknown", "atype:unknown", false
		}
		hostileCreate := g.R.Intn(10) == 0
		add(hc, "BID_CREATE", A{"by": b, "cowner": claimed, "casset": asset, "cbidder": b, "atype": at, "amt": amt, "dl": dl, "ch": 0}, hostileCreate, cls)
		opened := (claimed == o || at == "example") && dl >= times[hc] && !hostileCreate && cls == ""
		conv := func(by string, more A) A {
			a := A{"by": by, "cowner": claimed, "casset": asset, "cbidder": b, "ch": hc, "atype": at}
			for k, v := range more {
				a[k] = v
			}
			return a
		}
		state, cur, h := "bid", amt, hc
		steps := 0
		for h < blocks && state != "closed" {
			if steps++; !opened && steps > 2 {
				break // nothing was opened: a few requests on a conversation that does not exist are enough
			}
			h += []int{0, 1, 1, 1, 1, 2}[g.R.Intn(6)]
			own, bidr := claimed, b
			if g.R.Intn(6) == 0 { // a stranger tries
				own, bidr = other(claimed), other(b)
			}
			strange := own != claimed
			r := g.R.Intn(10)
			switch {
			case r == 9: // wait for the deadline and act around it
				hx := firstAfter(dl) - g.R.Intn(2)
				if hx > h {
					h = hx
				}
				k := g.R.Intn(3)
				add(h, []string{"BID_CANCEL", "BID_OWNER_DEC", "BID_COUNTER"}[k], conv([]string{b, claimed, claimed}[k], A{"dec": 1, "amt": cur + 10}), false, "")
				if h >= firstAfter(dl) {
					state = "closed"
				}
			case r == 7: // anybody asks for the conversation to be expired, whatever the deadline
				add(h, "BID_EXPIRE", conv(g.pick(append(people, "v1", "v2")), nil), false, "")
				state = "closed"
			case r == 5:
				add(h, "BID_CANCEL", conv(bidr, nil), false, "")
				if !strange {
					state = "closed"
				}
			case state == "bid" && r <= 2:
				a2 := cur + g.rng(1, 300)
				if g.R.Intn(5) == 0 {
					a2 = g.rng(1, cur)
				}
				add(h, "BID_COUNTER", conv(own, A{"amt": a2}), g.R.Intn(12) == 0, "")
				if !strange && a2 > cur {
					state, cur = "counter", a2
				}
			case state == "bid" && (r == 3 || r == 4):
				add(h, "BID_OWNER_DEC", conv(own, A{"dec": []int{1, 2, 2, 1, 0, 3}[g.R.Intn(6)]}), false, "")
				if !strange {
					state = "closed"
					if r == 3 {
						owner[asset] = b
					}
				}
			case state == "bid" && r == 6:
				add(h, "BID_CREATE", conv(bidr, A{"amt": g.rng(1, 400), "dl": dl}), false, "") // a second bid without a counter offer
			case state == "bid":
				add(h, "BID_BIDDER_DEC", conv(bidr, A{"dec": 1}), false, "") // nothing to decide on
			case state == "counter" && r <= 2:
				a2 := g.rng(1, cur-1)
				if g.R.Intn(5) == 0 {
					a2 = cur + g.R.Intn(50)
				}
				add(h, "BID_CREATE", conv(bidr, A{"amt": a2, "dl": dl}), g.R.Intn(12) == 0, "")
				if !strange && a2 < cur {
					state, cur = "bid", a2
				}
			case state == "counter" && (r == 3 || r == 4):
				add(h, "BID_BIDDER_DEC", conv(bidr, A{"dec": []int{1, 2, 2, 1, 0, 3}[g.R.Intn(6)]}), false, "")
				if !strange {
					state = "closed"
					if r == 3 {
						owner[asset] = b
					}
				}
			case state == "counter" && r == 6:
				add(h, "BID_COUNTER", conv(own, A{"amt": cur + g.rng(1, 100)}), false, "") // a second counter offer
			default:
				add(h, "BID_OWNER_DEC", conv(own, A{"dec": 1}), false, "") // nothing to decide on
			}
		}
		if g.R.Intn(3) == 0 { // a request on a conversation that is over
			add(h+g.rng(1, 2), []string{"BID_CANCEL", "BID_OWNER_DEC", "BID_BIDDER_DEC", "BID_EXPIRE", "BID_COUNTER", "BID_CREATE"}[g.R.Intn(6)],
				conv([]string{b, claimed}[g.R.Intn(2)], A{"dec": 1, "amt": cur + 5, "dl": dl}), false, "")
		}
	}
	// a plain deal on a registered name, so that every history has a name changing hands (or the attempt): a bid by
	// somebody else, sometimes a counter offer, acceptance by the party whose turn it is - or by the other one
	{
		n := g.pick(bidDomains)
		o := owner[n]
		b := other(o)
		hc := g.rng(3, blocks-4)
		dl := times[blocks] + 1000
		amt := g.rng(50, 500)
		add(hc, "BID_CREATE", A{"by": b, "cowner": o, "casset": n, "cbidder": b, "atype": "ons", "amt": amt, "dl": dl, "ch": 0}, false, "")
		conv := func(by string, more A) A {
			a := A{"by": by, "cowner": o, "casset": n, "cbidder": b, "ch": hc, "atype": "ons"}
			for k, v := range more {
				a[k] = v
			}
			return a
		}
		h := hc + g.rng(0, 2)
		if g.R.Intn(2) == 0 {
			add(h, "BID_COUNTER", conv(o, A{"amt": amt + g.rng(1, 200)}), false, "")
			h += g.rng(0, 2)
			add(h, "BID_BIDDER_DEC", conv([]string{b, b, b, o}[g.R.Intn(4)], A{"dec": 1}), false, "")
		} else {
			add(h, "BID_OWNER_DEC", conv([]string{o, o, o, b}[g.R.Intn(4)], A{"dec": 1}), false, "")
		}
		owner[n] = b
	}
	if g.R.Intn(3) == 0 { // a name is put on sale while bids are open: the asset is not available
		n := g.pick(bidDomains)
		add(g.rng(4, blocks-2), "DOM_SELL", A{"owner": owner[n], "name": n, "amt": g.rng(pb+1, 900), "cancel": 0}, false, "")
	}
	for h := 1; h <= blocks; h++ {
		if g.R.Intn(5) == 0 {
			g.curH = int64(h)
			evs = append(evs, ev{h, g.Tx("SEND", false)})
		}
	}
	sort.SliceStable(evs, func(i, j int) bool { return evs[i].h < evs[j].h })
	for h := 1; h <= blocks; h++ {
		b := SBlock{DT: dts[h], Proposer: g.pick(g.vals)}
		for _, e := range evs {
			if e.h == h {
				b.Txs = append(b.Txs, e.tx)
			}
		}
		sc.Blocks = append(sc.Blocks, b)
	}
	return sc
}
