package vapp

// Fees_Trace events: the fee pool and its distribution at the end of a block (module Fees)

type FeeVal struct {
	Power int64  `json:"power"`
	Owner string `json:"owner"`
}

type FeeEvent struct {
	T      int               `json:"t"`
	Ev     string            `json:"ev"`
	H      int64             `json:"h"`
	Pool0  int64             `json:"pool0"`
	Pool1  int64             `json:"pool1"`
	Share0 map[string]int64  `json:"share0"`
	Share1 map[string]int64  `json:"share1"`
	Vals   map[string]FeeVal `json:"vals"`   // the previous block's validator records
	Fees   int64             `json:"fees"`   // gas used x price of the block's accepted requests
	MinFee int64             `json:"minFee"` // 10^(decimals of the fee currency - minFeeDecimal)
	Other  []string          `json:"other"`  // accepted kinds that pay into the pool besides their fee
	Big    bool              `json:"big"`    // pool x power does not fit TLC's integers
}

// kinds that only charge gas used x price to the pool
var plainFeeKinds = map[string]bool{"SEND": true, "SENDPOOL": true, "STAKE": true, "UNSTAKE": true, "WITHDRAW": true,
	"DELEGATE": true, "UNDELEGATE": true, "DELEG_WITHDRAW": true, "DELEG_REINVEST": true, "REWARD_WITHDRAW": true,
	"ALLEGATION": true, "ALLEGATION_VOTE": true, "RELEASE": true}

func FeeEvents(t int, sc *Scenario, tr *Transcript) []FeeEvent {
	if tr.InitState == nil {
		return nil
	}
	var evs []FeeEvent
	prev := tr.InitState
	for _, b := range tr.Blocks {
		if b.State == nil {
			break
		}
		e := FeeEvent{T: t, Ev: "Block", H: b.H, Pool0: prev.FeePool, Pool1: b.State.FeePool, Share0: map[string]int64{}, Share1: map[string]int64{},
			Vals: map[string]FeeVal{}, Other: []string{}}
		for o, v := range prev.FeeShare {
			e.Share0[o] = v
		}
		for o, v := range b.State.FeeShare {
			e.Share1[o] = v
		}
		var maxPw int64 = 1
		for v, r := range prev.Vals {
			e.Vals[v] = FeeVal{Power: r.Power, Owner: r.Stake}
			if r.Power > maxPw {
				maxPw = r.Power
			}
		}
		e.MinFee = pow10(sc.Genesis.OLTDecimal - optInt(prev, "feeopt", "minFeeDecimal"))
		if len(prev.Props) > 0 || len(b.State.Props) > 0 {
			e.Other = append(e.Other, "proposals")
		}
		for _, tx := range b.Txs {
			if !accepted(tx) {
				continue
			}
			e.Fees += feeOf(tx)
			if !plainFeeKinds[tx.Req.Kind] {
				e.Other = append(e.Other, tx.Req.Kind)
			}
		}
		total := e.Pool1
		for _, v := range e.Share1 {
			total += v
		}
		e.Big = total >= Lim/maxPw/4
		evs = append(evs, e)
		prev = b.State
	}
	return evs
}
