package vapp

import (
	"crypto/sha256"
	"encoding/hex"

	"github.com/Oneledger/protocol/action"
	gv "github.com/Oneledger/protocol/action/governance"
	aons "github.com/Oneledger/protocol/action/ons"
	"github.com/Oneledger/protocol/data/balance"
	"github.com/Oneledger/protocol/data/governance"
	"github.com/Oneledger/protocol/data/ons"
)

// PropID maps a model proposal name ("p1") to a well-formed proposal id.
func PropID(name string) governance.ProposalID {
	h := sha256.Sum256([]byte("verif/prop/" + name))
	return governance.ProposalID(hex.EncodeToString(h[:]))
}

var propTypes = map[string]governance.ProposalType{
	"config": governance.ProposalTypeConfigUpdate, "code": governance.ProposalTypeCodeChange, "general": governance.ProposalTypeGeneral,
}

// msgExt: governance, ONS and ethereum tracker transaction kinds.
func (g *Genesis) msgExt(t TxReq) (action.Msg, []string, bool) {
	switch t.Kind {
	case "PROP_CREATE":
		goal := balance.NewAmountFromInt(t.I("goal"))
		return &gv.CreateProposal{
			ProposalID: PropID(t.S("id")), ProposalType: propTypes[t.S("type")], Headline: "headline " + t.S("id"),
			Description: "description of " + t.S("id"), Proposer: g.addr(t.S("by")), InitialFunding: t.AmountOf("amt"),
			FundingDeadline: t.I("fundDL"), FundingGoal: goal, VotingDeadline: t.I("voteDL"), PassPercentage: int(t.I("pass")),
			ConfigUpdate: t.S("update"),
		}, []string{t.S("by")}, true
	case "PROP_FUND":
		return &gv.FundProposal{ProposalId: PropID(t.S("id")), FunderAddress: g.addr(t.S("by")), FundValue: t.AmountOf("amt")}, []string{t.S("by")}, true
	case "PROP_VOTE":
		v := t.S("v")
		return &gv.VoteProposal{ProposalID: PropID(t.S("id")), Address: g.addr(t.S("by")), ValidatorAddress: g.addr(v),
			Opinion: governance.VoteOpinion(t.I("op"))}, []string{t.S("by"), v}, true
	case "PROP_CANCEL":
		return &gv.CancelProposal{ProposalId: PropID(t.S("id")), Proposer: g.addr(t.S("by")), Reason: "reason"}, []string{t.S("by")}, true
	case "PROP_WITHDRAW":
		return &gv.WithdrawFunds{ProposalID: PropID(t.S("id")), Funder: g.addr(t.S("by")), WithdrawValue: t.AmountOf("amt"),
			Beneficiary: g.addr(t.S("to"))}, []string{t.S("by")}, true
	case "PROP_EXPIRE":
		return &gv.ExpireVotes{ProposalID: PropID(t.S("id")), ValidatorAddress: g.addr(t.S("by"))}, []string{t.S("by")}, true
	case "PROP_FINALIZE":
		return &gv.FinalizeProposal{ProposalID: PropID(t.S("id")), ValidatorAddress: g.addr(t.S("by"))}, []string{t.S("by")}, true
	case "DOM_CREATE":
		return &aons.DomainCreate{Owner: g.addr(t.S("owner")), Beneficiary: g.addr(t.S("benef")), Name: ons.Name(t.S("name")),
			Uri: t.S("uri"), BuyingPrice: t.AmountOf("amt")}, []string{t.S("owner")}, true
	case "DOM_UPDATE":
		return &aons.DomainUpdate{Owner: g.addr(t.S("owner")), Beneficiary: g.addr(t.S("benef")), Name: ons.Name(t.S("name")),
			Active: t.I("active") != 0, Uri: t.S("uri")}, []string{t.S("owner")}, true
	case "DOM_SELL":
		return &aons.DomainSale{Name: ons.Name(t.S("name")), OwnerAddress: g.addr(t.S("owner")), Price: t.AmountOf("amt"),
			CancelSale: t.I("cancel") != 0}, []string{t.S("owner")}, true
	case "DOM_PURCHASE":
		return &aons.DomainPurchase{Name: ons.Name(t.S("name")), Buyer: g.addr(t.S("buyer")), Account: g.addr(t.S("benef")),
			Offering: t.AmountOf("amt")}, []string{t.S("buyer")}, true
	case "DOM_SEND":
		return &aons.DomainSend{From: g.addr(t.S("from")), Name: ons.Name(t.S("name")), Amount: t.AmountOf("amt")}, []string{t.S("from")}, true
	case "DOM_RENEW":
		return &aons.RenewDomain{Owner: g.addr(t.S("owner")), Name: ons.Name(t.S("name")), BuyingPrice: t.AmountOf("amt")}, []string{t.S("owner")}, true
	case "DOM_DELETE_SUB":
		return &aons.DeleteSub{Name: ons.Name(t.S("name")), Owner: g.addr(t.S("owner"))}, []string{t.S("owner")}, true
	}
	return g.msgEth(t)
}
