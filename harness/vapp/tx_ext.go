package vapp

import "github.com/Oneledger/protocol/action"

// msgExt: further transaction kinds (governance, ONS, ethereum trackers) are added here.
func (g *Genesis) msgExt(t TxReq) (action.Msg, []string, bool) {
	return nil, nil, false
}

func (g *Genesis) buildOLVM(t TxReq) *Built {
	panic("OLVM not built yet")
}
