package vapp

import (
	"encoding/hex"
	"fmt"
	"strings"

	"github.com/Oneledger/protocol/vm"
	abci "github.com/tendermint/tendermint/abci/types"
)

// Cmd is one command of the worker protocol.
type Cmd struct {
	Op      string         `json:"op"`
	Seq     int            `json:"seq"`
	Cfg     *ReplicaConfig `json:"cfg,omitempty"`
	Genesis *GenesisSpec   `json:"genesis,omitempty"`
	Block   *BlockSpec     `json:"block,omitempty"`
	Tx      []byte         `json:"tx,omitempty"`
	H       int64          `json:"h,omitempty"`
	Close   bool           `json:"close,omitempty"`
	// run_block: CheckTx injections; Checks[i] are issued before DeliverTx i (i = len(txs):
	// before EndBlock; len+1: before Commit; len+2: after Commit); PreChecks before BeginBlock
	Checks    map[int][][]byte `json:"checks,omitempty"`
	PreChecks [][]byte         `json:"pre_checks,omitempty"`
	StopAfter string           `json:"stop_after,omitempty"` // crash point: "begin", "deliver:<k>", "end", "" = run to commit
	NoIndex   bool             `json:"no_index,omitempty"`
	WantState bool             `json:"want_state,omitempty"`
	WantOrder bool             `json:"want_order,omitempty"`
	Results   []TxResult       `json:"results,omitempty"` // restore: the results of Block.Txs for the index
}

type TxResult struct {
	Code      uint32    `json:"code"`
	Data      string    `json:"data"`
	GasUsed   int64     `json:"gas_used"`
	GasWanted int64     `json:"gas_wanted"`
	Log       string    `json:"log,omitempty"`
	Olvm      *OlvmInfo `json:"olvm,omitempty"` // what the OLVM handler reported in its events (deliver only)
}

// OlvmInfo is read from the "olvm" / "olvm.logs" events of a delivered OLVM transaction.
type OlvmInfo struct {
	Status   string    `json:"status"`   // "1" executed successfully, "0" executed and failed (revert, out of gas, ...), "" no status tag
	Error    string    `json:"error"`    // tx.error
	Contract string    `json:"contract"` // hex address of the created contract
	Logs     []OlvmLog `json:"logs"`
}
type OlvmLog struct {
	Address string `json:"address"`
	Data    string `json:"data"`
}

func olvmInfo(evs []abci.Event) *OlvmInfo {
	var info *OlvmInfo
	for _, e := range evs {
		if e.Type != "olvm" && e.Type != "olvm.logs" {
			continue
		}
		if info == nil {
			info = &OlvmInfo{Logs: []OlvmLog{}}
		}
		for _, a := range e.Attributes {
			k := string(a.Key)
			switch {
			case k == "tx.status":
				info.Status = string(a.Value)
			case k == "tx.error":
				info.Error = string(a.Value)
			case k == "tx.contract":
				info.Contract = hex.EncodeToString(a.Value)
			case strings.HasPrefix(k, "tx.logs."):
				if l, err := new(vm.RLPLog).Decode(a.Value); err == nil {
					info.Logs = append(info.Logs, OlvmLog{Address: hex.EncodeToString(l.Address.Bytes()), Data: hex.EncodeToString(l.Data)})
				}
			}
		}
	}
	return info
}

type Update struct {
	PubKey string `json:"pk"`
	Power  int64  `json:"power"`
}

type Event struct {
	Type  string            `json:"type"`
	Attrs map[string]string `json:"attrs"`
}

type Reply struct {
	Seq     int         `json:"seq"`
	OK      bool        `json:"ok"`
	Err     string      `json:"err,omitempty"`
	Alive   bool        `json:"alive"`
	Height  int64       `json:"height,omitempty"`
	Hash    string      `json:"hash,omitempty"`
	Tx      *TxResult   `json:"tx,omitempty"`
	Txs     []TxResult  `json:"txs,omitempty"`
	Checks  []TxResult  `json:"checks,omitempty"`
	Updates []Update    `json:"updates,omitempty"`
	Events  []Event     `json:"events,omitempty"`
	Dump    [][2]string `json:"dump,omitempty"`
	Order   []string    `json:"order,omitempty"`
	State   *AbsState   `json:"state,omitempty"`
	Jobs    []string    `json:"jobs,omitempty"`
	Stopped string      `json:"stopped,omitempty"`
	Closed  bool        `json:"closed,omitempty"` // the application shut itself down (handlePanic)
}

type Worker struct {
	R      *Replica
	G      *Genesis
	curTxs [][]byte
	curRes []abci.ResponseDeliverTx
	curH   int64
}

func NewWorker() *Worker { return &Worker{} }

func (w *Worker) Close() {
	if w.R != nil {
		w.R.App.Close()
	}
}

func txres(code uint32, data []byte, used, wanted int64, log string) TxResult {
	return TxResult{Code: code, Data: hex.EncodeToString(data), GasUsed: used, GasWanted: wanted, Log: log}
}

func events(evs []abci.Event) []Event {
	var out []Event
	for _, e := range evs {
		x := Event{Type: e.Type, Attrs: map[string]string{}}
		for _, a := range e.Attributes {
			if e.Type == "allegation_tracker" {
				x.Attrs[string(a.Key)] = hex.EncodeToString(a.Value) // raw addresses and status byte
			} else {
				x.Attrs[string(a.Key)] = string(a.Value)
			}
		}
		out = append(out, x)
	}
	return out
}

func updates(us []abci.ValidatorUpdate) []Update {
	out := []Update{}
	for _, u := range us {
		out = append(out, Update{PubKey: hex.EncodeToString(u.PubKey.Data), Power: u.Power})
	}
	return out
}

func (w *Worker) Handle(c *Cmd) (rep *Reply) {
	rep = &Reply{Seq: c.Seq, OK: true, Alive: true}
	defer func() {
		if r := recover(); r != nil {
			rep.OK = false
			rep.Err = fmt.Sprint("harness panic: ", r)
		}
		if w.R != nil && c.Op != "exit" && w.R.App.VerifClosed() {
			// a recovered panic closed the application: observable death of the node
			rep.Closed = true
			rep.Alive = false
			rep.OK = true
		}
	}()
	switch c.Op {
	case "open":
		w.G = BuildGenesis(*c.Genesis)
		r, err := OpenReplica(*c.Cfg, w.G)
		if err != nil {
			rep.OK = false
			rep.Err = err.Error()
			return
		}
		w.R = r
		info := r.Info()
		rep.Height, rep.Hash = info.LastBlockHeight, hex.EncodeToString(info.LastBlockAppHash)
	case "initchain":
		res := w.R.InitChain()
		rep.Updates = updates(res.Validators)
	case "info":
		info := w.R.Info()
		rep.Height, rep.Hash = info.LastBlockHeight, hex.EncodeToString(info.LastBlockAppHash)
	case "begin":
		hash := w.R.SaveBlock(c.Block)
		res := w.R.BeginBlock(c.Block, hash)
		rep.Events = events(res.Events)
		w.curTxs, w.curRes, w.curH = nil, nil, c.Block.Height
	case "check":
		r := w.R.CheckTx(c.Tx)
		t := txres(r.Code, r.Data, r.GasUsed, r.GasWanted, r.Log)
		rep.Tx = &t
	case "deliver":
		r := w.R.DeliverTx(c.Tx)
		w.curTxs = append(w.curTxs, c.Tx)
		w.curRes = append(w.curRes, r)
		t := txres(r.Code, r.Data, r.GasUsed, r.GasWanted, r.Log)
		t.Olvm = olvmInfo(r.Events)
		rep.Tx = &t
	case "end":
		res := w.R.EndBlock(c.H)
		rep.Updates = updates(res.ValidatorUpdates)
		rep.Events = events(res.Events)
	case "commit":
		if c.WantOrder {
			rep.Order = w.R.OverlayKeys()
		}
		res := w.R.Commit()
		rep.Hash = hex.EncodeToString(res.Data)
		if !c.NoIndex {
			w.R.IndexBlock(w.curH, w.curTxs, w.curRes)
		}
		if c.WantState {
			rep.State = w.R.Project()
		}
	case "restore":
		// node side after a restart: the block store and the transaction index hold the
		// blocks that were committed before the crash
		w.R.SaveBlock(c.Block)
		var rs []abci.ResponseDeliverTx
		for _, t := range c.Results {
			d, _ := hex.DecodeString(t.Data)
			rs = append(rs, abci.ResponseDeliverTx{Code: t.Code, Data: d, GasUsed: t.GasUsed, GasWanted: t.GasWanted, Log: t.Log})
		}
		if len(rs) == len(c.Block.Txs) {
			w.R.IndexBlock(c.Block.Height, c.Block.Txs, rs)
		} else {
			rep.OK = false
			rep.Err = "restore: results do not match the block"
		}
	case "index":
		w.R.IndexBlock(w.curH, w.curTxs, w.curRes)
	case "run_block":
		w.runBlock(c, rep)
	case "dump":
		for _, kv := range w.R.Dump() {
			rep.Dump = append(rep.Dump, [2]string{hex.EncodeToString(kv.K), hex.EncodeToString(kv.V)})
		}
	case "state":
		rep.State = w.R.Project()
	case "order":
		rep.Order = w.R.OverlayKeys()
	case "reinit_witness":
		w.R.App.VerifReinitWitness()
	case "clear_jobs":
		w.R.App.VerifClearJobs()
	case "jobs":
		rep.Jobs = w.R.App.VerifJobs()
	case "exit":
	default:
		rep.OK = false
		rep.Err = "unknown op " + c.Op
	}
	return
}

// runBlock executes a whole block (with optional CheckTx injections and an optional stop
// point) in one round trip.
func (w *Worker) runBlock(c *Cmd, rep *Reply) {
	b := c.Block
	chk := func(txs [][]byte) {
		for _, t := range txs {
			r := w.R.CheckTx(t)
			rep.Checks = append(rep.Checks, txres(r.Code, r.Data, r.GasUsed, r.GasWanted, ""))
		}
	}
	chk(c.PreChecks)
	hash := w.R.SaveBlock(b)
	res := w.R.BeginBlock(b, hash)
	rep.Events = events(res.Events)
	w.curTxs, w.curRes, w.curH = nil, nil, b.Height
	if c.StopAfter == "begin" {
		rep.Stopped = c.StopAfter
		return
	}
	for i, t := range b.Txs {
		chk(c.Checks[i])
		r := w.R.DeliverTx(t)
		w.curTxs = append(w.curTxs, t)
		w.curRes = append(w.curRes, r)
		tr := txres(r.Code, r.Data, r.GasUsed, r.GasWanted, r.Log)
		tr.Olvm = olvmInfo(r.Events)
		rep.Txs = append(rep.Txs, tr)
		if c.StopAfter == fmt.Sprintf("deliver:%d", i) {
			rep.Stopped = c.StopAfter
			return
		}
	}
	chk(c.Checks[len(b.Txs)])
	er := w.R.EndBlock(b.Height)
	rep.Updates = updates(er.ValidatorUpdates)
	rep.Events = append(rep.Events, events(er.Events)...)
	if c.StopAfter == "end" {
		rep.Stopped = c.StopAfter
		return
	}
	chk(c.Checks[len(b.Txs)+1])
	if c.WantOrder {
		rep.Order = w.R.OverlayKeys()
	}
	cr := w.R.Commit()
	rep.Hash = hex.EncodeToString(cr.Data)
	rep.Height = b.Height
	if !c.NoIndex {
		w.R.IndexBlock(w.curH, w.curTxs, w.curRes)
	}
	chk(c.Checks[len(b.Txs)+2])
	if c.WantState {
		rep.State = w.R.Project()
	}
}
