package vapp

import (
	"bufio"
	"encoding/json"
	"fmt"
	"os"
	"os/exec"
)

// Proc is a worker process (one incarnation of one replica).
type Proc struct {
	cmd    *exec.Cmd
	in     *bufio.Writer
	enc    *json.Encoder
	dec    *json.Decoder
	seq    int
	Dead   bool
	Closed bool
	Exit   int
	Cfg    ReplicaConfig
	Gen    GenesisSpec
}

// WorkerBin is the path of the vworker binary (set by the driver's main).
var WorkerBin = os.Getenv("VWORKER_BIN")

func StartProc(cfg ReplicaConfig, gen GenesisSpec) (*Proc, *Reply, error) {
	c := exec.Command(WorkerBin)
	c.Env = append(os.Environ(), "VWORKER_LOG="+os.Getenv("VWORKER_LOG"))
	stdin, err := c.StdinPipe()
	if err != nil {
		return nil, nil, err
	}
	stdout, err := c.StdoutPipe()
	if err != nil {
		return nil, nil, err
	}
	if err := c.Start(); err != nil {
		return nil, nil, err
	}
	p := &Proc{cmd: c, in: bufio.NewWriter(stdin), Cfg: cfg, Gen: gen}
	p.enc = json.NewEncoder(p.in)
	p.dec = json.NewDecoder(bufio.NewReaderSize(stdout, 1<<20))
	rep := p.Call(&Cmd{Op: "open", Cfg: &cfg, Genesis: &gen})
	if !rep.Alive {
		return p, rep, fmt.Errorf("worker died at open")
	}
	if !rep.OK {
		return p, rep, fmt.Errorf("open: %s", rep.Err)
	}
	return p, rep, nil
}

// Call sends one command and waits for the answer.  A dead worker (EOF before the
// answer) is reported as Alive=false with the exit status in p.Exit.
func (p *Proc) Call(c *Cmd) *Reply {
	if p.Dead {
		return &Reply{Alive: false}
	}
	p.seq++
	c.Seq = p.seq
	if err := p.enc.Encode(c); err != nil {
		return p.died()
	}
	if err := p.in.Flush(); err != nil {
		return p.died()
	}
	rep := &Reply{}
	if err := p.dec.Decode(rep); err != nil {
		return p.died()
	}
	if rep.Closed {
		// the application closed itself; the process is of no further use
		p.Closed = true
		p.Call2Exit()
		p.Exit = -2
	}
	return rep
}

func (p *Proc) died() *Reply {
	p.Dead = true
	err := p.cmd.Wait()
	p.Exit = 0
	if ee, ok := err.(*exec.ExitError); ok {
		p.Exit = ee.ExitCode()
	} else if err != nil {
		p.Exit = -1
	}
	return &Reply{Alive: false}
}

func (p *Proc) Call2Exit() {
	_ = p.enc.Encode(&Cmd{Op: "exit"})
	_ = p.in.Flush()
	_ = p.cmd.Wait()
	p.Dead = true
}

// Kill ends the incarnation without closing the application (crash).
func (p *Proc) Kill() {
	if p.Dead {
		return
	}
	p.Call(&Cmd{Op: "exit", Close: false})
	_ = p.cmd.Wait()
	p.Dead = true
}

// Stop ends it gracefully.
func (p *Proc) Stop() {
	if p.Dead {
		return
	}
	p.Call(&Cmd{Op: "exit", Close: false})
	_ = p.cmd.Wait()
	p.Dead = true
}
