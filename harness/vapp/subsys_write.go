package vapp

import "encoding/json"

// WriteSubsysEvents writes the trace lines of one subsystem specification for one history.
func WriteSubsysEvents(spec string, enc *json.Encoder, t int, sc *Scenario, tr *Transcript) int {
	n := 0
	switch spec {
	case "Staking":
		for _, e := range StakingEvents(t, sc, tr) {
			_ = enc.Encode(e)
			n++
		}
	case "Governance":
		for _, e := range GovEvents(t, sc, tr) {
			_ = enc.Encode(e)
			n++
		}
	case "EthTracker":
		for _, e := range EthEvents(t, sc, tr) {
			_ = enc.Encode(e)
			n++
		}
	case "Allegation":
		for _, e := range AllegEvents(t, sc, tr) {
			_ = enc.Encode(e)
			n++
		}
	case "Validators":
		for _, e := range ValEvents(t, sc, tr) {
			_ = enc.Encode(e)
			n++
		}
	case "NetDelegation":
		for _, e := range DelegEvents(t, sc, tr) {
			_ = enc.Encode(e)
			n++
		}
	default:
		return writeSubsysExt(spec, enc, t, sc, tr)
	}
	return n
}
