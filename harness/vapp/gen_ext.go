package vapp

import "fmt"

var GovKinds = []string{"PROP_CREATE", "PROP_CREATE", "PROP_FUND", "PROP_FUND", "PROP_FUND", "PROP_VOTE", "PROP_VOTE", "PROP_VOTE", "PROP_CANCEL", "PROP_WITHDRAW", "PROP_WITHDRAW", "PROP_EXPIRE", "PROP_FINALIZE", "SEND", "STAKE", "UNSTAKE"}
var OnsKinds = []string{"DOM_CREATE", "DOM_CREATE", "DOM_CREATE_SUB", "DOM_UPDATE", "DOM_SELL", "DOM_SELL", "DOM_PURCHASE", "DOM_PURCHASE", "DOM_SEND", "DOM_RENEW", "DOM_DELETE_SUB", "SEND"}

var DelegKinds = []string{"DELEGATE", "DELEGATE", "UNDELEGATE", "UNDELEGATE", "DELEG_WITHDRAW", "DELEG_WITHDRAW", "DELEG_REINVEST", "SEND", "SENDPOOL"}
var StakeKinds = []string{"STAKE", "STAKE", "UNSTAKE", "UNSTAKE", "UNSTAKE", "WITHDRAW", "WITHDRAW", "SEND"}

var RewardKinds = []string{"REWARD_WITHDRAW", "REWARD_WITHDRAW", "REWARD_WITHDRAW", "STAKE", "UNSTAKE", "SEND", "DELEGATE", "WITHDRAW"}

var reqNames = []string{"r1", "r2", "r3", "r4"}
var AllegKinds = []string{"ALLEGATION", "ALLEGATION", "ALLEGATION_VOTE", "ALLEGATION_VOTE", "ALLEGATION_VOTE", "ALLEGATION_VOTE", "RELEASE", "STAKE", "UNSTAKE", "WITHDRAW", "SEND"}
var propNames = []string{"p1", "p2", "p3"}
var domNames = []string{"alpha.ol", "beta.ol", "gamma.ol"}
var subNames = []string{"x.alpha.ol", "y.alpha.ol", "x.beta.ol"}

// height estimate of the block being generated (set by Mixed)
func (g *Gen) txExt(kind string, hostile bool) STx {
	t := TxReq{Kind: kind}
	po := g.G.Proposal
	who := func() string {
		if g.R.Intn(4) == 0 {
			return "s" + g.pick(g.vals)
		}
		return g.pick(g.accts)
	}
	switch kind {
	case "PROP_CREATE":
		fund := g.curH + int64(g.rng(1, int(po.FundingDeadline)))
		if g.R.Intn(8) == 0 {
			fund = g.curH - int64(g.rng(0, 2))
		}
		typ := []string{"config", "code", "general"}[g.R.Intn(3)]
		upd := ""
		if typ == "config" {
			upd = []string{"stakingOptions.maturityTime:3", "stakingOptions.topValidatorCount:3", "onsOptions.perBlockFees:20", "feeOption.minFeeDecimal:2",
				"propOptions.general.passPercentage:60", "stakingOptions.minSelfDelegationAmount:2", "evidenceOptions.minVotesRequired:1", "bogus.key:1"}[g.R.Intn(8)]
		}
		goal, pass, vdl := po.FundingGoal, int64(po.PassPct), fund+po.VotingDeadline
		if g.R.Intn(10) == 0 {
			goal++
		}
		if g.R.Intn(10) == 0 {
			vdl++
		}
		t.A = A{"id": g.pick(propNames), "type": typ, "by": who(), "amt": g.amount(int(po.InitialFunding), int(po.FundingGoal)-1, hostile),
			"fundDL": fund, "goal": goal, "voteDL": vdl, "pass": pass, "update": upd}
	case "PROP_FUND":
		lo, hi := 100, int(po.FundingGoal)
		t.A = A{"id": g.pick(propNames), "by": who(), "amt": g.amount(lo, hi, hostile)}
	case "PROP_VOTE":
		v := g.pick(g.vals)
		by := "s" + v
		if g.R.Intn(6) == 0 {
			by = g.pick(g.accts)
		}
		t.A = A{"id": g.pick(propNames), "by": by, "v": v, "op": g.rng(0, 4)}
	case "PROP_CANCEL":
		t.A = A{"id": g.pick(propNames), "by": who()}
	case "PROP_WITHDRAW":
		by := who()
		to := by
		if g.R.Intn(3) == 0 {
			to = who()
		}
		t.A = A{"id": g.pick(propNames), "by": by, "to": to, "amt": g.amount(100, 3000, hostile)}
	case "PROP_EXPIRE", "PROP_FINALIZE":
		by := g.pick(g.vals)
		if g.R.Intn(3) == 0 {
			by = g.pick(g.accts)
		}
		t.A = A{"id": g.pick(propNames), "by": by}
	case "ALLEGATION":
		by := g.pick(g.vals)
		if g.R.Intn(6) == 0 {
			by = g.pick(g.accts) // an outsider tries
		}
		t.A = A{"id": g.pick(reqNames), "by": by, "accused": g.pick(g.vals), "h": g.curH - int64(g.R.Intn(2))}
	case "ALLEGATION_VOTE":
		by := g.pick(g.vals)
		if g.R.Intn(8) == 0 {
			by = g.pick(g.accts)
		}
		t.A = A{"id": g.pick(reqNames), "by": by, "choice": []int{1, 1, 1, 2, 2, 0, 3}[g.R.Intn(7)]}
	case "RELEASE":
		t.A = A{"v": g.pick(g.vals)}
	case "DOM_CREATE":
		o := who()
		t.A = A{"owner": o, "benef": who(), "name": g.pick(domNames), "uri": "http://example.org", "amt": g.amount(int(g.G.Ons.Base), int(g.G.Ons.Base)+200, hostile)}
	case "DOM_CREATE_SUB":
		t.Kind = "DOM_CREATE"
		o := who()
		t.A = A{"owner": o, "benef": o, "name": g.pick(subNames), "uri": "", "amt": g.amount(int(g.G.Ons.Base), int(g.G.Ons.Base)+100, hostile)}
	case "DOM_UPDATE":
		t.A = A{"owner": who(), "benef": who(), "name": g.pick(append(domNames, subNames...)), "active": g.rng(0, 1), "uri": ""}
	case "DOM_SELL":
		t.A = A{"owner": who(), "name": g.pick(domNames), "amt": g.amount(100, 3000, hostile), "cancel": boolInt(g.R.Intn(4) == 0)}
	case "DOM_PURCHASE":
		b := who()
		t.A = A{"buyer": b, "benef": b, "name": g.pick(domNames), "amt": g.amount(100, 4000, hostile)}
	case "DOM_SEND":
		t.A = A{"from": who(), "name": g.pick(append(domNames, subNames...)), "amt": g.amount(1, 2000, hostile)}
	case "DOM_RENEW":
		t.A = A{"owner": who(), "name": g.pick(domNames), "amt": g.amount(10, 300, hostile)}
	case "DOM_DELETE_SUB":
		t.A = A{"owner": who(), "name": g.pick(subNames)}
	case "BID_CREATE", "BID_COUNTER", "BID_CANCEL", "BID_BIDDER_DEC", "BID_OWNER_DEC", "BID_EXPIRE":
		// free-standing requests of the bid application (mempool pools, mutation bases, random mixes): the conversation is
		// drawn from a small space so that some requests meet an open one
		o, b := who(), who()
		asset := g.pick(append(append([]string{}, bidDomains...), bidExamples...))
		at := "ons"
		if asset == "ex1" {
			at = "example"
		}
		t.A = A{"by": []string{o, b}[g.R.Intn(2)], "cowner": o, "casset": asset, "cbidder": b, "atype": at, "ch": int(g.curH) - g.R.Intn(3),
			"amt": g.amount(10, 900, hostile), "dl": int64(g.curH+int64(g.rng(1, 6))) * 1000000, "dec": g.rng(1, 2)}
		if kind == "BID_CREATE" {
			t.A["by"] = b
			if g.R.Intn(3) > 0 {
				t.A["ch"] = 0
			}
		}
		if hostile && g.hclass == "amt" && g.R.Intn(4) == 0 {
			t.A["atype"], g.class = "unknown", "atype:unknown"
		}
	default:
		return g.txEth(kind, hostile)
	}
	return g.finish(t, hostile)
}

func boolInt(b bool) int {
	if b {
		return 1
	}
	return 0
}

func familyExt(family, id string, g *Gen, blocks, maxTx int) *Scenario {
	switch family {
	case "gov":
		if blocks < 18 {
			blocks = 18
		}
		return g.GovStory(id, blocks)
	case "stakefail":
		if blocks < 16 {
			blocks = 16
		}
		return g.StakeFailStory(id, blocks)
	case "govfee", "govstake":
		if blocks < 14 {
			blocks = 14
		}
		return g.GovFeeStory(id, blocks)
	case "govmix":
		return g.Mixed(id, blocks, maxTx, GovKinds)
	case "ons":
		if blocks < 16 {
			blocks = 16
		}
		return g.OnsStory(id, blocks, false)
	case "onsgov": // the registry while a passed proposal changes its prices
		if blocks < 18 {
			blocks = 18
		}
		return g.OnsStory(id, blocks, true)
	case "onsmix":
		return g.Mixed(id, blocks, maxTx, OnsKinds)
	case "olvm":
		return g.OlvmStory(id, blocks)
	case "olvmfork":
		if blocks < 18 {
			blocks = 18
		}
		return g.OlvmStory(id, blocks)
	case "bid":
		if blocks < 16 {
			blocks = 16
		}
		return g.BidStory(id, blocks)
	case "bidmix":
		return g.Mixed(id, blocks, maxTx, BidKinds)
	case "rewards":
		// long histories over the reward schedule: both reward years close (a block is about a million seconds, a year
		// about thirty blocks), powers change, signers are absent, matured rewards are withdrawn by their owners and by others
		g.Hostile = 0.15
		if blocks < 40 {
			blocks = 40
		}
		sc := g.Mixed(id, blocks, maxTx, RewardKinds)
		for i := range sc.Blocks {
			if g.R.Intn(4) == 0 {
				sc.Blocks[i].Absent = []string{g.pick(g.vals)}
			}
			if g.R.Intn(12) == 0 {
				sc.Blocks[i].DT = int64(g.rng(500000, 1100000)) // near the close window
			}
		}
		return sc
	case "deleg":
		g.Hostile = 0.2
		return g.Mixed(id, blocks, maxTx+2, DelegKinds)
	case "alleg":
		g.Hostile = 0.1
		sc := g.Mixed(id, blocks, maxTx+2, AllegKinds)
		for i := range sc.Blocks {
			// release times are measured in days: let some blocks be a month apart
			if g.R.Intn(6) == 0 {
				sc.Blocks[i].DT = int64(g.rng(20, 40)) * 86400
			}
		}
		return sc
	case "allegset":
		if blocks < 26 {
			blocks = 26
		}
		return g.AllegStory(id, blocks)
	case "valset":
		// staking activity, then a quiet tail (transfers only) so that the active set can converge
		g.Hostile = 0.1
		sc := g.Mixed(id, blocks, maxTx+1, StakeKinds)
		cut := blocks - 8 - g.R.Intn(3)
		if cut < 2 {
			cut = 2
		}
		for i := cut; i < len(sc.Blocks); i++ {
			sc.Blocks[i].Txs = nil
			sc.Blocks[i].Absent = nil
			if g.R.Intn(2) == 0 {
				sc.Blocks[i].Txs = []STx{g.Tx("SEND", false)}
			}
		}
		return sc
	case "exodus":
		// every validator may unstake everything
		g.Exodus = true
		g.Hostile = 0
		return g.Mixed(id, blocks, maxTx, []string{"UNSTAKE", "UNSTAKE", "UNSTAKE", "STAKE", "SEND"})
	case "stake":
		g.Hostile = 0.2
		return g.Mixed(id, blocks, maxTx+2, StakeKinds)
	case "failing":
		g.Hostile, g.Direct = 0.8, 1.0
		return g.Mixed(id, blocks, maxTx, BaseKinds)
	}
	return familyEth(family, id, g, blocks, maxTx)
}

func familyKindsExt(family string) []string {
	switch family {
	case "deleg":
		return DelegKinds
	case "valset", "exodus":
		return StakeKinds
	case "alleg", "allegset":
		return AllegKinds
	case "eth", "eth5", "erc20", "ethstory":
		return EthKinds
	case "stake", "stakefail":
		return StakeKinds
	case "gov", "govfee", "govstake":
		return GovKinds
	case "ons", "onsmix":
		return OnsKinds
	case "rewards":
		return RewardKinds
	case "olvm", "olvmfork":
		return []string{"OLVM", "SEND"}
	case "bid", "bidmix":
		return BidKinds
	case "onsgov":
		return append(append([]string{}, OnsKinds...), "PROP_CREATE", "PROP_FUND", "PROP_VOTE")
	}
	return nil
}

var _ = fmt.Sprint
