package vapp

func (g *Gen) txExt(kind string, hostile bool) STx {
	panic("unknown kind " + kind)
}

func familyExt(family, id string, g *Gen, blocks, maxTx int) *Scenario { return nil }

func familyKindsExt(family string) []string { return nil }
