package vapp

import (
	"hash/fnv"
	"math/rand"
)

// AllegStory: one validator is found guilty and frozen, is released after the release time,
// later another one is found guilty; votes come from the validators still active, with a
// dissenting vote and an outsider's attempt now and then; a quiet tail lets the validator set
// converge to the election that leaves the frozen out.  Which of the four validators plays
// which part is drawn, so both address orders of "released earlier" and "guilty later" occur.
func (g *Gen) AllegStory(id string, blocks int) *Scenario {
	sc := &Scenario{ID: id, Genesis: g.G}
	for h := 1; h <= blocks; h++ {
		sc.Blocks = append(sc.Blocks, SBlock{DT: int64(g.rng(500000, 1500000)), Proposer: g.pick(g.vals)})
	}
	add := func(h int, kind string, a A) {
		if h >= 1 && h <= blocks {
			sc.Blocks[h-1].Txs = append(sc.Blocks[h-1].Txs, STx{Req: TxReq{Kind: kind, A: a}, Path: "honest"})
		}
	}
	vals := append([]string{}, g.vals...)
	g.R.Shuffle(len(vals), func(i, j int) { vals[i], vals[j] = vals[j], vals[i] })
	first, second := vals[0], vals[1]
	others := func(except ...string) []string {
		var out []string
		for _, v := range g.vals {
			skip := false
			for _, e := range except {
				skip = skip || e == v
			}
			if !skip {
				out = append(out, v)
			}
		}
		return out
	}
	verdict := func(h int, rid, accused string, frozen ...string) int {
		voters := others(append([]string{accused}, frozen...)...)
		add(h, "ALLEGATION", A{"id": rid, "by": voters[0], "accused": accused, "h": int64(h - 1)})
		for i, v := range voters {
			choice := 1
			if i == len(voters)-1 && g.R.Intn(3) == 0 {
				choice = 2 // one dissent does not change a three-quarters majority
			}
			add(h+1+g.R.Intn(2), "ALLEGATION_VOTE", A{"id": rid, "by": v, "choice": choice})
		}
		if g.R.Intn(3) == 0 {
			add(h+1, "ALLEGATION_VOTE", A{"id": rid, "by": g.pick(g.accts), "choice": 1})
		}
		return h + 3
	}
	// variant (drawn from a source of its own, so the other histories are what they were): two validators are accused
	// in one block and all votes on both requests arrive in the next one - two guilty verdicts at the end of one block
	hs := fnv.New64a()
	hs.Write([]byte(id))
	r2 := rand.New(rand.NewSource(int64(hs.Sum64() >> 1)))
	if len(vals) >= 4 && r2.Intn(3) == 0 {
		third := vals[2]
		h0 := 3 + r2.Intn(2)
		v1, v3 := others(first), others(third)
		add(h0, "ALLEGATION", A{"id": "r1", "by": v1[r2.Intn(len(v1))], "accused": first, "h": int64(h0 - 1)})
		add(h0, "ALLEGATION", A{"id": "r3", "by": v3[r2.Intn(len(v3))], "accused": third, "h": int64(h0 - 1)})
		for _, v := range v1 {
			add(h0+1, "ALLEGATION_VOTE", A{"id": "r1", "by": v, "choice": 1})
		}
		for _, v := range v3 {
			add(h0+1, "ALLEGATION_VOTE", A{"id": "r3", "by": v, "choice": 1})
		}
		for hh := 1; hh <= blocks; hh++ {
			if r2.Intn(3) == 0 {
				g.curH = int64(hh)
				sc.Blocks[hh-1].Txs = append(sc.Blocks[hh-1].Txs, g.Tx("SEND", false))
			}
		}
		return sc
	}
	h := 3 + g.R.Intn(2)
	h = verdict(h, "r1", first)
	// a month passes, the first one is released (an early attempt fails)
	add(h, "RELEASE", A{"v": first})
	h += 2
	if h <= blocks {
		sc.Blocks[h-1].DT = int64(g.rng(31, 40)) * 86400
	}
	add(h+1, "RELEASE", A{"v": first})
	h += 3
	released := g.R.Intn(4) != 0
	if !released {
		// variant: the first stays frozen when the second is found guilty
		sc.Blocks[h-4].DT = int64(g.rng(500000, 900000))
	}
	if released {
		h = verdict(h, "r2", second)
	} else {
		h = verdict(h, "r2", second, first)
	}
	for hh := 1; hh <= h && hh <= blocks; hh++ {
		if g.R.Intn(3) == 0 {
			g.curH = int64(hh)
			sc.Blocks[hh-1].Txs = append(sc.Blocks[hh-1].Txs, g.Tx("SEND", false))
		}
	}
	return sc
}
