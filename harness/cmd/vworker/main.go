// vworker: one incarnation of one replica of the OneLedger application, driven over
// NDJSON on stdin; answers go to the original stdout (the application's own logging,
// which also goes to fd 1, is redirected to a log file or /dev/null).
package main

import (
	"bufio"
	"encoding/json"
	"fmt"
	"os"
	"syscall"

	"verif/harness/vapp"
)

func main() {
	fd, err := syscall.Dup(1)
	if err != nil {
		panic(err)
	}
	logPath := os.Getenv("VWORKER_LOG")
	if logPath == "" {
		logPath = "/dev/null"
	}
	lf, err := os.OpenFile(logPath, os.O_WRONLY|os.O_CREATE|os.O_APPEND, 0644)
	if err != nil {
		panic(err)
	}
	_ = syscall.Dup2(int(lf.Fd()), 1)
	_ = syscall.Dup2(int(lf.Fd()), 2)
	out := bufio.NewWriter(os.NewFile(uintptr(fd), "reply"))
	in := bufio.NewReaderSize(os.Stdin, 1<<20)
	w := vapp.NewWorker()
	dec := json.NewDecoder(in)
	enc := json.NewEncoder(out)
	for {
		var cmd vapp.Cmd
		if err := dec.Decode(&cmd); err != nil {
			return
		}
		rep := w.Handle(&cmd)
		if err := enc.Encode(rep); err != nil {
			fmt.Fprintln(lf, "encode:", err)
			os.Exit(3)
		}
		out.Flush()
		if cmd.Op == "exit" {
			if cmd.Close {
				w.Close()
			}
			os.Exit(0)
		}
	}
}
