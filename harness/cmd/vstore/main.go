// vstore: conformance driver for property C09 (storage).
//
// It binds specs/Storage.tla to package storage of /repo in both directions:
//
//	paths  - reads the labelled state graph that TLC exported from Storage_Gen
//	         (one JSON edge per transition, the expected result of every operation
//	         is carried by the edge), enumerates every path up to a length bound
//	         (and optionally an edge cover of the rest) and runs each on the real
//	         State/ChainState, comparing every answer with the edge; commit hashes
//	         are compared with a flat twin fed with the specification's write log
//	         and with a twin that skips reads and discarded sessions.
//	sim    - the same for behaviours printed by `tlc -simulate` (edge sequences).
//	trace  - runs seeded random operation sequences on the real store and records
//	         them as NDJSON for validation by TLC against Storage_Trace.
//	replay - re-executes a stored replay file.
package main

import (
	"bufio"
	"bytes"
	"encoding/hex"
	"encoding/json"
	"flag"
	"fmt"
	"io/ioutil"
	"math/rand"
	"os"
	"path/filepath"
	"sort"
	"strconv"
	"strings"
	"sync"
	"sync/atomic"
	"syscall"

	"github.com/Oneledger/protocol/config"
	"github.com/Oneledger/protocol/storage"
	db "github.com/tendermint/tm-db"
)

type Op struct {
	N string `json:"n"`
	K string `json:"k"`
	V string `json:"v"`
	R string `json:"r"`
	// It is the result of an Iter operation: for every key "-" (not visited) or the value
	It map[string]string `json:"it,omitempty"`
}

type Edge struct {
	Op    Op
	Dst   int
	Batch [][2]string
}

type rawEdge struct {
	S json.RawMessage `json:"s"`
	O Op              `json:"o"`
	D json.RawMessage `json:"d"`
	B [][2]string     `json:"b"`
}

type Graph struct {
	ids   map[string]int
	adj   [][]Edge
	init  int
	edges int
}

func unescapeTLA(s string) string {
	// TLC prints a TLA+ string: backslash-escaped quotes and backslashes
	var b strings.Builder
	for i := 0; i < len(s); i++ {
		if s[i] == '\\' && i+1 < len(s) {
			i++
			b.WriteByte(s[i])
			continue
		}
		b.WriteByte(s[i])
	}
	return b.String()
}

func parseEdgeLine(line string) (*rawEdge, bool) {
	const pre = `<<"EDGE", "`
	if !strings.HasPrefix(line, pre) {
		return nil, false
	}
	line = strings.TrimSuffix(strings.TrimSpace(line), `">>`)
	js := unescapeTLA(line[len(pre):])
	re := &rawEdge{}
	if err := json.Unmarshal([]byte(js), re); err != nil {
		fmt.Fprintln(os.Stderr, "bad edge:", err, js)
		os.Exit(2)
	}
	return re, true
}

func loadGraph(path string) *Graph {
	f, err := os.Open(path)
	if err != nil {
		fmt.Fprintln(os.Stderr, err)
		os.Exit(2)
	}
	defer f.Close()
	g := &Graph{ids: map[string]int{}, init: -1}
	id := func(s string) int {
		if i, ok := g.ids[s]; ok {
			return i
		}
		i := len(g.adj)
		g.ids[s] = i
		g.adj = append(g.adj, nil)
		return i
	}
	sc := bufio.NewScanner(f)
	sc.Buffer(make([]byte, 1<<20), 1<<26)
	for sc.Scan() {
		re, ok := parseEdgeLine(sc.Text())
		if !ok {
			continue
		}
		s := id(string(re.S))
		d := id(string(re.D))
		if g.init < 0 {
			g.init = s // BFS: the first edge printed leaves the initial state
		}
		g.adj[s] = append(g.adj[s], Edge{Op: re.O, Dst: d, Batch: re.B})
		g.edges++
	}
	return g
}

// ---------------------------------------------------------------------------------
// the system under test

type Opts struct {
	Backend               string // memdb | goleveldb
	Gas                   bool
	Recent, Every, Cycles int64
	Dir                   string
}

type SUT struct {
	o   Opts
	d   db.DB
	cs  *storage.ChainState
	st  *storage.State
	dir string
}

var dirCounter int64

func (o Opts) open(dir string) db.DB {
	if o.Backend == "goleveldb" {
		d, err := db.NewGoLevelDB("c09", dir)
		if err != nil {
			panic(err)
		}
		return d
	}
	return db.NewMemDB()
}

func NewSUT(o Opts) *SUT {
	s := &SUT{o: o}
	if o.Backend == "goleveldb" {
		s.dir = filepath.Join(o.Dir, fmt.Sprintf("db%d", atomic.AddInt64(&dirCounter, 1)))
		_ = os.MkdirAll(s.dir, 0755)
	}
	s.d = o.open(s.dir)
	s.load()
	return s
}

func (s *SUT) load() {
	s.cs = storage.NewChainState("c09", s.d)
	if err := s.cs.SetupRotation(config.ChainStateRotationCfg{Recent: s.o.Recent, Every: s.o.Every, Cycles: s.o.Cycles}); err != nil {
		panic(err)
	}
	s.st = storage.NewState(s.cs)
	if s.o.Gas {
		s.st = s.st.WithGas(storage.NewGasCalculator(storage.Gas(1 << 60)))
	}
}

func (s *SUT) Close() {
	if s.o.Backend == "goleveldb" {
		s.d.Close()
		os.RemoveAll(s.dir)
	}
}

func abs(v []byte) string {
	if len(v) == 0 {
		return "-"
	}
	if bytes.Equal(v, []byte(storage.TOMBSTONE)) {
		return "T"
	}
	return string(v)
}

// Do executes one operation and returns the observable result in the specification's
// vocabulary; for BlockCommit the result is "ok" and hash is set.
func (s *SUT) Do(op Op) (res string, hash []byte) {
	switch op.N {
	case "Set":
		if err := s.st.Set(storage.StoreKey(op.K), []byte(op.V)); err != nil {
			return "err:" + err.Error(), nil
		}
		return "ok", nil
	case "Delete":
		if _, err := s.st.Delete(storage.StoreKey(op.K)); err != nil {
			return "err:" + err.Error(), nil
		}
		return "ok", nil
	case "Get":
		v, err := s.st.Get(storage.StoreKey(op.K))
		if err != nil {
			return "err:" + err.Error(), nil
		}
		return abs(v), nil
	case "Exists":
		if s.st.Exists(storage.StoreKey(op.K)) {
			return "true", nil
		}
		return "false", nil
	case "Begin":
		s.st.BeginTxSession()
		return "ok", nil
	case "Discard":
		s.st.DiscardTxSession()
		return "ok", nil
	case "CommitS":
		s.st.CommitTxSession()
		return "ok", nil
	case "Write":
		s.st.Write()
		return "ok", nil
	case "BlockCommit":
		h, _ := s.st.Commit()
		return "ok", h
	case "Reopen":
		if s.o.Backend == "goleveldb" {
			s.d.Close()
			s.d = s.o.open(s.dir)
		}
		s.load()
		return "ok", nil
	case "Iter":
		got := map[string]string{}
		s.st.Iterate(func(k, v []byte) bool {
			if len(v) == 0 {
				got[string(k)] = "E" // visited with an empty value
			} else {
				got[string(k)] = abs(v)
			}
			return false
		})
		keys := make([]string, 0, len(op.It))
		for k := range op.It {
			keys = append(keys, k)
		}
		sort.Strings(keys)
		var b strings.Builder
		for _, k := range keys {
			v, ok := got[k]
			if !ok {
				v = "-"
			}
			b.WriteString(k + "=" + v + ";")
		}
		return b.String(), nil
	case "GetVer":
		ver, _ := strconv.ParseInt(op.V, 10, 64)
		return abs(s.st.GetVersioned(ver, storage.StoreKey(op.K))), nil
	}
	panic("unknown op " + op.N)
}

// Flat twin: a bare ChainState that receives exactly the specification's write log.
type Flat struct {
	cs *storage.ChainState
}

func NewFlat(o Opts) *Flat {
	cs := storage.NewChainState("flat", db.NewMemDB())
	_ = cs.SetupRotation(config.ChainStateRotationCfg{Recent: o.Recent, Every: o.Every, Cycles: o.Cycles})
	return &Flat{cs}
}

func (f *Flat) Commit(batch [][2]string) []byte {
	for _, w := range batch {
		if w[1] == "T" {
			_, _ = f.cs.Delete(storage.StoreKey(w[0]))
		} else {
			_ = f.cs.Set(storage.StoreKey(w[0]), []byte(w[1]))
		}
	}
	h, _ := f.cs.Commit()
	return h
}

func iterString(it map[string]string) string {
	keys := make([]string, 0, len(it))
	for k := range it {
		keys = append(keys, k)
	}
	sort.Strings(keys)
	var b strings.Builder
	for _, k := range keys {
		b.WriteString(k + "=" + it[k] + ";")
	}
	return b.String()
}

// readFree removes reads, existence checks and discarded sessions from a sequence.
func readFree(ops []Op) []Op {
	keep := make([]bool, len(ops))
	sessStart := -1
	dropSession := func(upto int) {
		if sessStart >= 0 {
			for j := sessStart; j < upto; j++ {
				// only what lives in the session goes away with it; a Write (flush of the
				// block cache into the tree) inside the segment is not a session operation
				if ops[j].N == "Set" || ops[j].N == "Delete" || ops[j].N == "Begin" {
					keep[j] = false
				}
			}
		}
		sessStart = -1
	}
	for i, op := range ops {
		switch op.N {
		case "Get", "Exists", "GetVer", "Iter":
			keep[i] = false
		case "Begin":
			dropSession(i) // a new session replaces (discards) an open one
			sessStart = i
			keep[i] = true
		case "Discard":
			dropSession(i)
			keep[i] = false
		case "CommitS":
			sessStart = -1
			keep[i] = true
		case "BlockCommit", "Reopen":
			dropSession(i)
			keep[i] = true
		default:
			keep[i] = true
		}
	}
	if sessStart >= 0 {
		// an unfinished session at the end influences nothing yet; keep it as is
	}
	out := []Op{}
	for i, op := range ops {
		if keep[i] {
			out = append(out, op)
		}
	}
	return out
}

type Mismatch struct {
	Kind  string        `json:"kind"`
	Step  int           `json:"step"`
	Op    Op            `json:"op"`
	Got   string        `json:"got"`
	Want  string        `json:"want"`
	Ops   []Op          `json:"ops"`
	Batch [][][2]string `json:"batches"`
	Opts  Opts          `json:"opts"`
}

// runSeq executes ops (with the expected result in Op.R and, for commits, the expected
// batch) and returns the first mismatch, if any.  tomb counts the reads that differ from
// the specification only by returning the tombstone of an overlay-deleted key.
func runSeq(o Opts, ops []Op, batches [][][2]string) *Mismatch {
	s := NewSUT(o)
	defer s.Close()
	flat := NewFlat(o)
	var hashes [][]byte
	bi := 0
	for i, op := range ops {
		res, h := s.Do(op)
		want := op.R
		if op.N == "Iter" {
			want = iterString(op.It)
		}
		if res != want {
			return &Mismatch{Kind: "result", Step: i, Op: op, Got: res, Want: want, Ops: ops, Batch: batches, Opts: o}
		}
		if op.N == "BlockCommit" {
			fh := flat.Commit(batches[bi])
			bi++
			hashes = append(hashes, h)
			if !bytes.Equal(fh, h) {
				return &Mismatch{Kind: "hash-vs-writelog", Step: i, Op: op, Got: hex.EncodeToString(h), Want: hex.EncodeToString(fh), Ops: ops, Batch: batches, Opts: o}
			}
		}
	}
	if len(hashes) > 0 {
		rf := readFree(ops)
		if len(rf) != len(ops) {
			t := NewSUT(o)
			defer t.Close()
			j := 0
			for i, op := range rf {
				_, h := t.Do(op)
				if op.N == "BlockCommit" {
					if !bytes.Equal(h, hashes[j]) {
						return &Mismatch{Kind: "hash-vs-readfree", Step: i, Op: op, Got: hex.EncodeToString(hashes[j]), Want: hex.EncodeToString(h), Ops: ops, Batch: batches, Opts: o}
					}
					j++
				}
			}
		}
	}
	return nil
}

type Stats struct {
	Seqs       int64 `json:"sequences"`
	Ops        int64 `json:"operations"`
	Commits    int64 `json:"commits"`
	Nontrivial int64 `json:"nontrivial"`
	Mismatches int64 `json:"mismatches"`
}

type pathJob struct {
	ops     []Op
	batches [][][2]string
}

func nontrivial(ops []Op) bool {
	w, r := false, false
	for _, op := range ops {
		switch op.N {
		case "Set", "Delete":
			w = true
		case "Get", "Exists", "GetVer", "Iter":
			if w {
				r = true
			}
		}
	}
	return w && r
}

type Runner struct {
	opts     []Opts
	stats    Stats
	mu       sync.Mutex
	first    []*Mismatch
	samples  [][]Op
	maxFirst int
	classes  map[string]int
}

func (r *Runner) run(job pathJob) {
	for _, o := range r.opts {
		m := runSeq(o, job.ops, job.batches)
		atomic.AddInt64(&r.stats.Seqs, 1)
		atomic.AddInt64(&r.stats.Ops, int64(len(job.ops)))
		for _, op := range job.ops {
			if op.N == "BlockCommit" {
				atomic.AddInt64(&r.stats.Commits, 1)
			}
		}
		if m != nil {
			atomic.AddInt64(&r.stats.Mismatches, 1)
			r.mu.Lock()
			cl := classify(m)
			r.classes[cl]++
			if r.classes[cl] <= 3 && len(r.first) < r.maxFirst {
				r.first = append(r.first, m)
			}
			r.mu.Unlock()
		}
	}
	if nontrivial(job.ops) {
		atomic.AddInt64(&r.stats.Nontrivial, 1)
	}
}

// classify gives the signature of a mismatch (used for known-findings matching).
func classify(m *Mismatch) string {
	if m.Kind == "result" && (m.Op.N == "Get" || m.Op.N == "Exists") {
		if (m.Op.N == "Get" && m.Got == "T" && m.Want == "-") || (m.Op.N == "Exists" && m.Got == "true" && m.Want == "false") {
			// is the key deleted in an overlay at this point (tombstone in session or cache)?
			if overlayDeleted(m.Ops[:m.Step], m.Op.K) {
				return "overlay-deleted-key-read:" + m.Op.N
			}
		}
	}
	if m.Kind == "result" && m.Op.N == "Iter" {
		// differs only on keys that are deleted in an overlay?
		only := true
		gm := map[string]string{}
		for _, kv := range strings.Split(m.Got, ";") {
			if p := strings.SplitN(kv, "=", 2); len(p) == 2 {
				gm[p[0]] = p[1]
			}
		}
		for k, w := range m.Op.It {
			if gm[k] != w && !(w == "-" && overlayDeleted(m.Ops[:m.Step], k)) {
				only = false
			}
		}
		if only {
			return "overlay-deleted-key-read:Iter"
		}
	}
	return m.Kind + ":" + m.Op.N
}

// overlayDeleted replays ops on a tiny reference of the overlays only and reports whether
// the innermost overlay entry of key k is a tombstone.
func overlayDeleted(ops []Op, k string) bool {
	cache := map[string]string{}
	var sess map[string]string
	for _, op := range ops {
		switch op.N {
		case "Set", "Delete":
			v := op.V
			if op.N == "Delete" {
				v = "T"
			}
			if sess != nil {
				sess[op.K] = v
			} else {
				cache[op.K] = v
			}
		case "Begin":
			sess = map[string]string{}
		case "Discard":
			sess = nil
		case "CommitS":
			for kk, v := range sess {
				cache[kk] = v
			}
			sess = nil
		case "BlockCommit", "Reopen":
			cache = map[string]string{}
			sess = nil
		}
	}
	if sess != nil {
		if v, ok := sess[k]; ok {
			return v == "T"
		}
	}
	return cache[k] == "T"
}

func enumerate(g *Graph, maxLen int, cover bool, r *Runner, workers int) (paths int64, covered int) {
	jobs := make(chan pathJob, 1024)
	var wg sync.WaitGroup
	for w := 0; w < workers; w++ {
		wg.Add(1)
		go func() {
			defer wg.Done()
			for j := range jobs {
				r.run(j)
			}
		}()
	}
	seenEdge := map[[2]int]bool{}
	var ops []Op
	var batches [][][2]string
	emit := func() {
		o := make([]Op, len(ops))
		copy(o, ops)
		b := make([][][2]string, len(batches))
		copy(b, batches)
		jobs <- pathJob{o, b}
		paths++
		if len(r.samples) < 5 && nontrivial(o) && paths%997 == 1 {
			r.samples = append(r.samples, o)
		}
	}
	var dfs func(s, depth int)
	dfs = func(s, depth int) {
		if depth == maxLen {
			emit()
			return
		}
		if len(g.adj[s]) == 0 {
			emit()
			return
		}
		for ei, e := range g.adj[s] {
			seenEdge[[2]int{s, ei}] = true
			ops = append(ops, e.Op)
			if e.Op.N == "BlockCommit" {
				batches = append(batches, e.Batch)
			}
			dfs(e.Dst, depth+1)
			if e.Op.N == "BlockCommit" {
				batches = batches[:len(batches)-1]
			}
			ops = ops[:len(ops)-1]
		}
	}
	dfs(g.init, 0)
	if cover {
		// BFS tree from init; for every edge not yet covered run tree-path(src) + edge
		type pe struct{ prev, ei int }
		parent := make([]pe, len(g.adj))
		for i := range parent {
			parent[i] = pe{-2, 0}
		}
		parent[g.init] = pe{-1, 0}
		queue := []int{g.init}
		for len(queue) > 0 {
			s := queue[0]
			queue = queue[1:]
			for ei, e := range g.adj[s] {
				if parent[e.Dst].prev == -2 {
					parent[e.Dst] = pe{s, ei}
					queue = append(queue, e.Dst)
				}
			}
		}
		pathTo := func(s int) ([]Op, [][][2]string) {
			var rev []Edge
			for s != g.init {
				p := parent[s]
				rev = append(rev, g.adj[p.prev][p.ei])
				s = p.prev
			}
			var o []Op
			var b [][][2]string
			for i := len(rev) - 1; i >= 0; i-- {
				o = append(o, rev[i].Op)
				if rev[i].Op.N == "BlockCommit" {
					b = append(b, rev[i].Batch)
				}
			}
			return o, b
		}
		for s := range g.adj {
			if parent[s].prev == -2 {
				continue
			}
			var po []Op
			var pb [][][2]string
			have := false
			for ei, e := range g.adj[s] {
				if seenEdge[[2]int{s, ei}] {
					continue
				}
				if !have {
					po, pb = pathTo(s)
					have = true
				}
				o := append(append([]Op{}, po...), e.Op)
				b := append([][][2]string{}, pb...)
				if e.Op.N == "BlockCommit" {
					b = append(b, e.Batch)
				}
				jobs <- pathJob{o, b}
				covered++
			}
		}
	}
	close(jobs)
	wg.Wait()
	return
}

func parseOpts(backends string, gasModes string, recent, every, cycles int64, dir string) []Opts {
	var out []Opts
	for _, b := range strings.Split(backends, ",") {
		for _, gm := range strings.Split(gasModes, ",") {
			out = append(out, Opts{Backend: b, Gas: gm == "gas", Recent: recent, Every: every, Cycles: cycles, Dir: dir})
		}
	}
	return out
}

type Report struct {
	Mode      string         `json:"mode"`
	States    int            `json:"graph_states"`
	Edges     int            `json:"graph_edges"`
	Paths     int64          `json:"paths"`
	Covered   int            `json:"cover_edges"`
	Stats     Stats          `json:"stats"`
	Classes   map[string]int `json:"mismatch_classes"`
	First     []*Mismatch    `json:"first_mismatches"`
	Samples   [][]Op         `json:"samples"`
	TraceFile string         `json:"trace_file,omitempty"`
	Traces    int            `json:"traces,omitempty"`
	Events    int            `json:"events,omitempty"`
}

func quietStdout() *os.File {
	// the repo's packages log to os.Stdout; keep fd 1 for them (to /dev/null) and use a
	// duplicate of the original stdout for our own output
	fd, err := syscall.Dup(1)
	if err != nil {
		panic(err)
	}
	null, _ := os.OpenFile("/dev/null", os.O_WRONLY, 0)
	_ = syscall.Dup2(int(null.Fd()), 1)
	return os.NewFile(uintptr(fd), "out")
}

func main() {
	out := quietStdout()
	if len(os.Args) < 2 {
		fmt.Fprintln(os.Stderr, "usage: vstore paths|sim|trace|replay ...")
		os.Exit(2)
	}
	mode := os.Args[1]
	fs := flag.NewFlagSet(mode, flag.ExitOnError)
	edges := fs.String("edges", "", "TLC output with EDGE lines")
	maxLen := fs.Int("len", 4, "path length bound")
	cover := fs.Bool("cover", false, "also run an edge cover of the graph")
	backends := fs.String("backends", "memdb", "memdb,goleveldb")
	gas := fs.String("gas", "plain,gas", "plain,gas")
	recent := fs.Int64("recent", 0, "")
	every := fs.Int64("every", 0, "")
	cycles := fs.Int64("cycles", 0, "")
	workers := fs.Int("workers", 16, "")
	dir := fs.String("dir", os.TempDir(), "scratch dir for goleveldb")
	seed := fs.Int64("seed", 1, "")
	n := fs.Int("n", 100, "number of traces")
	keys := fs.Int("keys", 3, "")
	vals := fs.Int("vals", 2, "")
	maxCommits := fs.Int("commits", 3, "")
	outFile := fs.String("out", "", "trace output")
	_ = fs.Parse(os.Args[2:])

	rep := &Report{Mode: mode}
	r := &Runner{opts: parseOpts(*backends, *gas, *recent, *every, *cycles, *dir), maxFirst: 20, classes: map[string]int{}}
	switch mode {
	case "paths":
		g := loadGraph(*edges)
		if g.init < 0 {
			fmt.Fprintln(os.Stderr, "no edges in", *edges)
			os.Exit(2)
		}
		rep.States, rep.Edges = len(g.adj), g.edges
		rep.Paths, rep.Covered = enumerate(g, *maxLen, *cover, r, *workers)
	case "sim":
		runSim(*edges, r, rep, *workers)
	case "trace":
		runTrace(r.opts[0], *seed, *n, *maxLen, *keys, *vals, *maxCommits, *outFile, rep)
	case "replay":
		data, err := ioutil.ReadFile(fs.Arg(0))
		if err != nil {
			fmt.Fprintln(os.Stderr, err)
			os.Exit(2)
		}
		var rf struct {
			Mismatch *Mismatch `json:"mismatch"`
		}
		if err := json.Unmarshal(data, &rf); err != nil || rf.Mismatch == nil {
			fmt.Fprintln(os.Stderr, "bad replay file", err)
			os.Exit(2)
		}
		m := runSeq(rf.Mismatch.Opts, rf.Mismatch.Ops, rf.Mismatch.Batch)
		if m != nil {
			r.first = append(r.first, m)
			r.classes[classify(m)]++
			r.stats.Mismatches++
		}
	default:
		fmt.Fprintln(os.Stderr, "unknown mode", mode)
		os.Exit(2)
	}
	rep.Stats = r.stats
	rep.First = r.first
	rep.Classes = r.classes
	rep.Samples = r.samples
	sort.Slice(rep.First, func(i, j int) bool { return len(rep.First[i].Ops) < len(rep.First[j].Ops) })
	enc := json.NewEncoder(out)
	_ = enc.Encode(rep)
}

// runSim: edges printed by `tlc -simulate` come as consecutive behaviours; a behaviour
// starts whenever the source state is the initial state (steps restart).
func runSim(path string, r *Runner, rep *Report, workers int) {
	f, err := os.Open(path)
	if err != nil {
		fmt.Fprintln(os.Stderr, err)
		os.Exit(2)
	}
	defer f.Close()
	jobs := make(chan pathJob, 64)
	var wg sync.WaitGroup
	for w := 0; w < workers; w++ {
		wg.Add(1)
		go func() {
			defer wg.Done()
			for j := range jobs {
				r.run(j)
			}
		}()
	}
	sc := bufio.NewScanner(f)
	sc.Buffer(make([]byte, 1<<20), 1<<26)
	var ops []Op
	var batches [][][2]string
	last := ""
	initS := ""
	flush := func() {
		if len(ops) > 0 {
			jobs <- pathJob{ops, batches}
			rep.Paths++
			if len(r.samples) < 3 {
				s := ops
				if len(s) > 40 {
					s = s[:40]
				}
				r.samples = append(r.samples, s)
			}
		}
		ops, batches = nil, nil
	}
	for sc.Scan() {
		re, ok := parseEdgeLine(sc.Text())
		if !ok {
			continue
		}
		if initS == "" {
			initS = string(re.S)
		}
		if string(re.S) != last || (string(re.S) == initS && last != initS) {
			// not a continuation of the previous step: a new behaviour begins
			if string(re.S) != last {
				flush()
			}
		}
		ops = append(ops, re.O)
		if re.O.N == "BlockCommit" {
			batches = append(batches, re.B)
		}
		last = string(re.D)
		rep.Edges++
	}
	flush()
	close(jobs)
	wg.Wait()
}

// runTrace: seeded random operation sequences on the real store, recorded for TLC.
func runTrace(o Opts, seed int64, n, length, nkeys, nvals, maxCommits int, outFile string, rep *Report) {
	rng := rand.New(rand.NewSource(seed))
	f, err := os.Create(outFile)
	if err != nil {
		fmt.Fprintln(os.Stderr, err)
		os.Exit(2)
	}
	w := bufio.NewWriter(f)
	defer f.Close()
	defer w.Flush()
	enc := json.NewEncoder(w)
	keys := []string{}
	for i := 1; i <= nkeys; i++ {
		keys = append(keys, fmt.Sprintf("k%d", i))
	}
	vals := []string{"a", "b", "c", "d"}[:nvals]
	type ev struct {
		T  int               `json:"t"`
		N  string            `json:"n"`
		K  string            `json:"k"`
		V  string            `json:"v"`
		R  string            `json:"r"`
		FH bool              `json:"fh"` // commit hash equals the read-free twin's
		It map[string]string `json:"it"`
	}
	noIter := map[string]string{}
	for _, k := range keys {
		noIter[k] = ""
	}
	for t := 1; t <= n; t++ {
		s := NewSUT(o)
		var ops []Op
		var hashes [][]byte
		var evs []ev
		commits := 0
		for i := 0; i < length; i++ {
			var op Op
			k := keys[rng.Intn(len(keys))]
			switch x := rng.Intn(100); {
			case x < 22:
				op = Op{N: "Set", K: k, V: vals[rng.Intn(len(vals))]}
			case x < 34:
				op = Op{N: "Delete", K: k}
			case x < 52:
				op = Op{N: "Get", K: k}
			case x < 64:
				op = Op{N: "Exists", K: k}
			case x < 72:
				op = Op{N: "Begin"}
			case x < 77:
				op = Op{N: "Discard"}
			case x < 84:
				op = Op{N: "CommitS"}
			case x < 90:
				op = Op{N: "BlockCommit"}
			case x < 93:
				op = Op{N: "Reopen"}
			case x < 95:
				op = Op{N: "Write"}
			case x < 97:
				op = Op{N: "Iter", It: noIter}
			default:
				op = Op{N: "GetVer", K: k, V: strconv.Itoa(1 + rng.Intn(maxCommits))}
			}
			if op.N == "CommitS" && !sessionOpen(ops) {
				continue // CommitTxSession without a session panics by contract
			}
			if op.N == "BlockCommit" {
				if commits >= maxCommits {
					continue
				}
				commits++
			}
			if op.N == "Write" && len(ops) > 0 && countSince(ops, "Write") > 0 {
				continue
			}
			res, h := s.Do(op)
			op.R = res
			ops = append(ops, op)
			if op.N == "BlockCommit" {
				hashes = append(hashes, h)
			}
			e := ev{T: t, N: op.N, K: op.K, V: op.V, R: res, FH: true, It: noIter}
			if op.N == "Iter" {
				// res is "k1=v;k2=-;..."; log it as the per-key map the specification uses
				e.It = map[string]string{}
				for _, kv := range strings.Split(res, ";") {
					if p := strings.SplitN(kv, "=", 2); len(p) == 2 {
						e.It[p[0]] = p[1]
					}
				}
				e.R = "ok"
			}
			evs = append(evs, e)
		}
		s.Close()
		// read-free twin
		if len(hashes) > 0 {
			tw := NewSUT(o)
			j := 0
			ci := 0
			rf := readFree(ops)
			// index of commit events in evs
			var cidx []int
			for i, e := range evs {
				if e.N == "BlockCommit" {
					cidx = append(cidx, i)
				}
			}
			for _, op := range rf {
				_, h := tw.Do(op)
				if op.N == "BlockCommit" {
					if !bytes.Equal(h, hashes[j]) {
						evs[cidx[ci]].FH = false
					}
					j++
					ci++
				}
			}
			tw.Close()
		}
		for _, e := range evs {
			_ = enc.Encode(e)
			rep.Events++
		}
		rep.Traces++
		if len(rep.Samples) < 2 {
			s := ops
			if len(s) > 30 {
				s = s[:30]
			}
			rep.Samples = append(rep.Samples, s)
		}
	}
	rep.TraceFile = outFile
}

func sessionOpen(ops []Op) bool {
	open := false
	for _, op := range ops {
		switch op.N {
		case "Begin":
			open = true
		case "Discard", "CommitS", "BlockCommit", "Reopen":
			open = false
		}
	}
	return open
}

func countSince(ops []Op, n string) int {
	c := 0
	for i := len(ops) - 1; i >= 0; i-- {
		if ops[i].N == "BlockCommit" || ops[i].N == "Reopen" {
			break
		}
		if ops[i].N == n {
			c++
		}
	}
	return c
}
