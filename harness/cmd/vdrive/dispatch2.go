package main

func dispatch2(mode string, args []string) bool { return false }
