package main

import (
	"bufio"
	"encoding/json"
	"fmt"
	"math/rand"
	"os"
	"sort"
	"strings"

	"verif/harness/vapp"
)

// ReplicaEvent is one line of a Replica_Trace trace.
type ReplicaEvent struct {
	T        int     `json:"t"`
	Node     string  `json:"node"`
	Ev       string  `json:"ev"`
	H        int64   `json:"h"`
	Vals     string  `json:"vals,omitempty"`
	Res      *ResRec `json:"res,omitempty"`
	InfoH    int64   `json:"info_h"`
	InfoHash string  `json:"info_hash"`
	WantH    int64   `json:"want_h"`
	WantHash string  `json:"want_hash"`
}

type ResRec struct {
	Hash string `json:"hash"`
	Upd  string `json:"upd"`
	Txs  string `json:"txs"`
}

func updString(us []vapp.NUpdate) string {
	var p []string
	for _, u := range us {
		p = append(p, fmt.Sprintf("%s:%d", u.V, u.Power))
	}
	return strings.Join(p, ",")
}

func txString(rs []vapp.TxResult, keep func(i int) bool) string {
	var p []string
	for i, r := range rs {
		if keep != nil && !keep(i) {
			continue
		}
		p = append(p, fmt.Sprintf("%d/%s/%d/%d", r.Code, r.Data, r.GasUsed, r.GasWanted))
	}
	return strings.Join(p, ";")
}

// events of one execution; keep selects the transaction results that are compared
func replicaEvents(t int, node string, tr *vapp.Transcript, keep func(h int64, i int) bool) []ReplicaEvent {
	evs := []ReplicaEvent{{T: t, Node: node, Ev: "Init", Vals: updString(tr.InitVals)}}
	for _, b := range tr.Blocks {
		for _, e := range b.Events {
			if e.Type == "verif_restart" {
				var ih, wh int64
				fmt.Sscan(e.Attrs["info_height"], &ih)
				fmt.Sscan(e.Attrs["want_height"], &wh)
				evs = append(evs, ReplicaEvent{T: t, Node: node, Ev: "Restart", H: b.H, InfoH: ih, InfoHash: e.Attrs["info_hash"], WantH: wh, WantHash: e.Attrs["want_hash"]})
			}
		}
		if b.Hash == "" {
			continue // the execution ended inside this block
		}
		var k func(i int) bool
		if keep != nil {
			h := b.H
			k = func(i int) bool { return keep(h, i) }
		}
		evs = append(evs, ReplicaEvent{T: t, Node: node, Ev: "Block", H: b.H, Res: &ResRec{Hash: b.Hash, Upd: updString(b.Updates), Txs: txString(b.Results, k)}})
	}
	return evs
}

type traceWriter struct {
	f   *os.File
	w   *bufio.Writer
	enc *json.Encoder
	n   int
}

func newTraceWriter(path string) *traceWriter {
	f, err := os.Create(path)
	if err != nil {
		fmt.Fprintln(os.Stderr, err)
		os.Exit(2)
	}
	w := bufio.NewWriter(f)
	return &traceWriter{f: f, w: w, enc: json.NewEncoder(w)}
}

func (t *traceWriter) write(evs []ReplicaEvent) {
	for _, e := range evs {
		_ = t.enc.Encode(e)
		t.n++
	}
}

func (t *traceWriter) close() { t.w.Flush(); t.f.Close() }

type twin struct {
	name string
	opts vapp.RunOpts
}

// group: one scenario, its reference execution and its twins
type group struct {
	sc    *vapp.Scenario
	ref   *vapp.Transcript
	twins []*vapp.Transcript
	names []string
	descr []string
	err   error
}

func loadScenarios(c *common) []*vapp.Scenario {
	if c.scen == "" {
		return nil
	}
	var given []*vapp.Scenario
	data, err := os.ReadFile(c.scen)
	if err != nil || json.Unmarshal(data, &given) != nil {
		fmt.Fprintln(os.Stderr, "cannot read scenarios", c.scen, err)
		os.Exit(2)
	}
	c.n = len(given)
	return given
}

func dispatch2(mode string, args []string) bool {
	switch mode {
	case "replicas":
		replicasMode(args)
	case "failed":
		failedMode(args)
	case "checks":
		checksMode(args)
	case "crash":
		crashMode(args)
	default:
		return dispatch3(mode, args)
	}
	return true
}

func finishGroups(c *common, rep *Report, groups []*group, keepOf func(g *group) func(h int64, i int) bool) {
	tw := newTraceWriter(c.out)
	var metas []map[string]interface{}
	for i, g := range groups {
		if g.err != nil {
			fmt.Fprintln(os.Stderr, "run error:", g.err)
			os.Exit(2)
		}
		rep.count(g.ref)
		var keep func(h int64, i int) bool
		if keepOf != nil {
			keep = keepOf(g)
		}
		tw.write(replicaEvents(i+1, "ref", g.ref, keep))
		for j, t := range g.twins {
			tw.write(replicaEvents(i+1, g.names[j], t, nil))
			if t.Dead {
				rep.Dead++
				if len(rep.DeadAt) < 10 {
					rep.DeadAt = append(rep.DeadAt, g.sc.ID+"/"+g.names[j]+": "+t.DeadAt)
				}
			}
		}
		metas = append(metas, map[string]interface{}{"scenario": g.sc.ID, "twins": g.names, "descr": g.descr})
		if len(rep.Samples) < 3 {
			rep.Samples = append(rep.Samples, map[string]interface{}{"scenario": g.sc.ID, "twins": g.descr, "blocks": len(g.ref.Blocks)})
		}
	}
	tw.close()
	rep.Events = tw.n
	mf, _ := os.Create(c.out + ".meta.json")
	_ = json.NewEncoder(mf).Encode(metas)
	mf.Close()
	var scs []*vapp.Scenario
	for _, g := range groups {
		scs = append(scs, g.sc)
	}
	sf, _ := os.Create(c.out + ".scenarios.json")
	_ = json.NewEncoder(sf).Encode(scs)
	sf.Close()
	emit(rep)
}

// replicasMode (C01): the same blocks on replicas with different identities, roles, job
// stores, chain-state rotation, and on a second run of the same configuration.
func replicasMode(args []string) {
	c, _ := flags("replicas", args)
	given := loadScenarios(c)
	rep := newReport("replicas")
	groups := make([]*group, c.n)
	parallel(c.n, c.workers, func(i int) {
		g := &group{}
		groups[i] = g
		if given != nil {
			g.sc = given[i]
		} else {
			g.sc = makeScenario(c, i)
		}
		g.ref, g.err = vapp.Materialise(g.sc, vapp.RunOpts{Identity: "v1"})
		if g.err != nil {
			return
		}
		tws := []twin{
			{"v1-again", vapp.RunOpts{Identity: "v1"}},
			{"v2-witness", vapp.RunOpts{Identity: "v2", ReinitWit: true}},
			{"v1-witness-nojobs", vapp.RunOpts{Identity: "v1", ReinitWit: true, ClearJobs: true}},
			{"outsider-rot", vapp.RunOpts{Identity: "n9", Recent: 1, Every: 2, Cycles: 1}},
		}
		for _, tw := range tws {
			t, err := vapp.Replay(g.sc, g.ref, tw.opts)
			if err != nil {
				g.err = err
				return
			}
			g.twins = append(g.twins, t)
			g.names = append(g.names, tw.name)
			g.descr = append(g.descr, tw.name)
		}
	})
	order := 0
	for _, g := range groups {
		if g.err != nil {
			continue
		}
		for bi, b := range g.ref.Blocks {
			for _, t := range g.twins {
				if bi < len(t.Blocks) && t.Blocks[bi].Order != b.Order && t.Blocks[bi].Hash == b.Hash {
					order++
				}
			}
		}
	}
	rep.Extra["latent_order_divergences"] = order
	finishGroups(c, rep, groups, nil)
}

// failedMode (C06): a twin gets every block without its failed transactions.
func failedMode(args []string) {
	c, _ := flags("failed", args)
	given := loadScenarios(c)
	rep := newReport("failed")
	groups := make([]*group, c.n)
	failedTotal := 0
	parallel(c.n, c.workers, func(i int) {
		g := &group{}
		groups[i] = g
		if given != nil {
			g.sc = given[i]
		} else {
			g.sc = makeScenario(c, i)
		}
		g.ref, g.err = vapp.Materialise(g.sc, vapp.RunOpts{Identity: "v1"})
		if g.err != nil {
			return
		}
		ref := g.ref
		failed := func(h int64, i int) bool {
			b := ref.Blocks[h-1]
			return i < len(b.Results) && b.Results[i].Code != 0
		}
		t, err := vapp.Replay(g.sc, g.ref, vapp.RunOpts{Identity: "v1", Skip: failed})
		if err != nil {
			g.err = err
			return
		}
		g.twins = append(g.twins, t)
		g.names = append(g.names, "without-failed")
		nf := 0
		for _, b := range ref.Blocks {
			for _, r := range b.Results {
				if r.Code != 0 {
					nf++
				}
			}
		}
		g.descr = append(g.descr, fmt.Sprintf("without-failed (%d failed transactions removed)", nf))
	})
	for _, g := range groups {
		if g.err == nil {
			for _, b := range g.ref.Blocks {
				for _, r := range b.Results {
					if r.Code != 0 {
						failedTotal++
					}
				}
			}
		}
	}
	rep.Extra["failed_transactions_removed"] = failedTotal
	finishGroups(c, rep, groups, func(g *group) func(h int64, i int) bool {
		ref := g.ref
		return func(h int64, i int) bool { return ref.Blocks[h-1].Results[i].Code == 0 }
	})
}

// pool of transactions a mempool could hold: every transaction of the history (past ones
// are duplicates, future ones are valid and state-changing in the check state) plus extra
// generated requests
func checkPool(g *vapp.Scenario, ref *vapp.Transcript, rng *rand.Rand, extra []string) [][]byte {
	var pool [][]byte
	for _, b := range ref.Concrete {
		pool = append(pool, b.Txs...)
	}
	for _, ch := range ref.Checked {
		pool = append(pool, ch...)
	}
	gen := vapp.BuildGenesis(g.Genesis)
	gg := vapp.NewGen(rng.Int63(), g.Genesis)
	for i := 0; i < 6; i++ {
		st := gg.Tx(extra[rng.Intn(len(extra))], i%3 == 0)
		pool = append(pool, gen.Build(st.Req).Bytes)
	}
	pool = append(pool, []byte("not a transaction"), []byte("{}"))
	return pool
}

// checksMode (C07): twins with CheckTx calls injected at call boundaries.
func checksMode(args []string) {
	c, fs := flags("checks", args)
	_ = fs
	given := loadScenarios(c)
	rep := newReport("checks")
	groups := make([]*group, c.n)
	schedPerScenario := 4
	injected := make([]int, c.n)
	parallel(c.n, c.workers, func(i int) {
		g := &group{}
		groups[i] = g
		if given != nil {
			g.sc = given[i]
		} else {
			g.sc = makeScenario(c, i)
		}
		g.ref, g.err = vapp.Materialise(g.sc, vapp.RunOpts{Identity: "v1"})
		if g.err != nil {
			return
		}
		rng := rand.New(rand.NewSource(c.seed*7919 + int64(i)))
		pool := checkPool(g.sc, g.ref, rng, familyKinds(c.family))
		// twin 0: no CheckTx at all
		t0, err := vapp.Replay(g.sc, g.ref, vapp.RunOpts{Identity: "v1", NoCheck: true})
		if err != nil {
			g.err = err
			return
		}
		g.twins, g.names, g.descr = append(g.twins, t0), append(g.names, "no-checktx"), append(g.descr, "no CheckTx at all")
		for s := 0; s < schedPerScenario; s++ {
			checks := map[int64]map[int][][]byte{}
			var d []string
			nb := len(g.ref.Concrete)
			if s == 0 {
				// every position of one block gets one injection
				h := int64(1 + rng.Intn(nb))
				checks[h] = map[int][][]byte{}
				for pos := -1; pos <= len(g.ref.Concrete[h-1].Txs)+2; pos++ {
					checks[h][pos] = [][]byte{pool[rng.Intn(len(pool))]}
					injected[i]++
				}
				d = append(d, fmt.Sprintf("all positions of block %d", h))
			} else {
				k := 1 + rng.Intn(6)
				for j := 0; j < k; j++ {
					h := int64(1 + rng.Intn(nb))
					pos := -1 + rng.Intn(len(g.ref.Concrete[h-1].Txs)+4)
					if checks[h] == nil {
						checks[h] = map[int][][]byte{}
					}
					m := 1 + rng.Intn(3)
					for x := 0; x < m; x++ {
						checks[h][pos] = append(checks[h][pos], pool[rng.Intn(len(pool))])
						injected[i]++
					}
					d = append(d, fmt.Sprintf("h%d@%d x%d", h, pos, m))
				}
			}
			t, err := vapp.Replay(g.sc, g.ref, vapp.RunOpts{Identity: "v1", Checks: checks})
			if err != nil {
				g.err = err
				return
			}
			g.twins = append(g.twins, t)
			g.names = append(g.names, fmt.Sprintf("inject-%d", s))
			g.descr = append(g.descr, strings.Join(d, " "))
		}
	})
	tot := 0
	for _, n := range injected {
		tot += n
	}
	rep.Extra["checktx_injected"] = tot
	finishGroups(c, rep, groups, nil)
}

// crashMode (C08): twins that die at a call boundary and are restarted from disk.
func crashMode(args []string) {
	c, _ := flags("crash", args)
	given := loadScenarios(c)
	rep := newReport("crash")
	groups := make([]*group, c.n)
	crashes := make([]int, c.n)
	parallel(c.n, c.workers, func(i int) {
		g := &group{}
		groups[i] = g
		if given != nil {
			g.sc = given[i]
		} else {
			g.sc = makeScenario(c, i)
		}
		g.ref, g.err = vapp.Materialise(g.sc, vapp.RunOpts{Identity: "v1"})
		if g.err != nil {
			return
		}
		rng := rand.New(rand.NewSource(c.seed*104729 + int64(i)))
		nb := len(g.ref.Concrete)
		point := func(h int64) string {
			ntx := len(g.ref.Concrete[h-1].Txs)
			opts := []string{"begin", "end", "commit"}
			for k := 0; k < ntx; k++ {
				opts = append(opts, fmt.Sprintf("deliver:%d", k))
			}
			return opts[rng.Intn(len(opts))]
		}
		for s := 0; s < 3; s++ {
			restart := map[int64]string{}
			k := 1 + rng.Intn(3)
			if s == 0 {
				k = 1
			}
			for j := 0; j < k; j++ {
				h := int64(1 + rng.Intn(nb))
				restart[h] = point(h)
			}
			var d []string
			hs := []int{}
			for h := range restart {
				hs = append(hs, int(h))
			}
			sort.Ints(hs)
			for _, h := range hs {
				d = append(d, fmt.Sprintf("h%d:%s", h, restart[int64(h)]))
				crashes[i]++
			}
			dir, _ := os.MkdirTemp("", "vcrash")
			t, err := vapp.Replay(g.sc, g.ref, vapp.RunOpts{Identity: "v1", Restart: restart, Dir: dir})
			os.RemoveAll(dir)
			if err != nil {
				g.err = err
				return
			}
			g.twins = append(g.twins, t)
			g.names = append(g.names, fmt.Sprintf("crash-%d", s))
			g.descr = append(g.descr, strings.Join(d, " "))
		}
	})
	tot := 0
	for _, n := range crashes {
		tot += n
	}
	rep.Extra["crash_points"] = tot
	finishGroups(c, rep, groups, nil)
}

func familyKinds(family string) []string {
	return vapp.FamilyKinds(family)
}
