package main

func dispatch5(mode string, args []string) bool { return false }
