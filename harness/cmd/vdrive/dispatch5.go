package main

import (
	"encoding/json"
	"fmt"
	"os"
	"reflect"
	"strings"

	"verif/harness/vapp"
)

func dispatch5(mode string, args []string) bool {
	switch mode {
	case "diverge":
		divergeMode(args)
	default:
		return dispatch6(mode, args)
	}
	return true
}

// divergeMode: diagnosis of a disagreement found by the replica checks: re-run the reference
// and one twin with state projection and print where the projected states first differ.
// usage: vdrive diverge --scenario file  <restart spec like h12:commit,h3:begin | nocheck>
func divergeMode(args []string) {
	c, fs := flags("diverge", args)
	given := loadScenarios(c)
	sc := given[0]
	ref, err := vapp.Materialise(sc, vapp.RunOpts{Identity: "v1", WantState: true})
	if err != nil {
		fmt.Println(err)
		os.Exit(1)
	}
	o := vapp.RunOpts{Identity: "v1", WantState: true}
	spec := fs.Arg(0)
	if spec == "nocheck" {
		o.NoCheck = true
	} else if spec == "wit" {
		o.ReinitWit = true
	} else if spec == "nojobs" {
		o.ReinitWit, o.ClearJobs = true, true
	} else if strings.HasPrefix(spec, "ident:") {
		o.Identity = strings.TrimPrefix(spec, "ident:")
		o.ReinitWit = true
	} else {
		o.Restart = map[int64]string{}
		for _, p := range strings.Split(spec, ",") {
			var h int64
			var pt string
			q := strings.SplitN(strings.TrimPrefix(p, "h"), ":", 2)
			fmt.Sscan(q[0], &h)
			pt = q[1]
			o.Restart[h] = pt
		}
		dir, _ := os.MkdirTemp("", "vdiv")
		defer os.RemoveAll(dir)
		o.Dir = dir
	}
	tw, err := vapp.Replay(sc, ref, o)
	if err != nil {
		fmt.Println(err)
		os.Exit(1)
	}
	for i := range ref.Blocks {
		if i >= len(tw.Blocks) {
			break
		}
		a, b := ref.Blocks[i], tw.Blocks[i]
		if a.Hash == b.Hash {
			continue
		}
		fmt.Printf("first divergence at block %d: %s vs %s\n", a.H, a.Hash, b.Hash)
		ja, _ := json.Marshal(a.State)
		jb, _ := json.Marshal(b.State)
		var ma, mb map[string]interface{}
		_ = json.Unmarshal(ja, &ma)
		_ = json.Unmarshal(jb, &mb)
		for k := range ma {
			if !reflect.DeepEqual(ma[k], mb[k]) {
				x, _ := json.Marshal(ma[k])
				y, _ := json.Marshal(mb[k])
				fmt.Printf("  %s:\n    ref : %s\n    twin: %s\n", k, x, y)
			}
		}
		fmt.Printf("  events ref : %v\n  events twin: %v\n", a.Events, b.Events)
		return
	}
	fmt.Println("no divergence")
}
