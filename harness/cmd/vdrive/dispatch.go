package main

import (
	"bufio"
	"encoding/json"
	"flag"
	"fmt"
	"os"
	"sync"

	"verif/harness/vapp"
)

type Report struct {
	Mode       string                 `json:"mode"`
	Scenarios  int                    `json:"scenarios"`
	Blocks     int                    `json:"blocks"`
	Txs        int                    `json:"txs"`
	Accepted   int                    `json:"accepted"`
	Rejected   int                    `json:"rejected"`
	Dead       int                    `json:"dead"`
	DeadAt     []string               `json:"dead_at,omitempty"`
	Events     int                    `json:"events"`
	Nontrivial int                    `json:"nontrivial"`
	KindStats  map[string][2]int      `json:"kind_stats"` // kind -> [accepted, rejected]
	Unknown    map[string]int         `json:"unknown_keys,omitempty"`
	Samples    []interface{}          `json:"samples"`
	Extra      map[string]interface{} `json:"extra,omitempty"`
	Findings   []Finding              `json:"findings,omitempty"`
}

type Finding struct {
	Sig    map[string]string `json:"sig"`
	Text   string            `json:"text"`
	Replay interface{}       `json:"replay"`
}

func (r *Report) count(tr *vapp.Transcript) {
	r.Scenarios++
	nt := false
	for _, b := range tr.Blocks {
		r.Blocks++
		for _, t := range b.Txs {
			r.Txs++
			ks := r.KindStats[t.Req.Kind]
			if t.Deliver != nil && t.Deliver.Code == 0 {
				r.Accepted++
				ks[0]++
				nt = true
			} else {
				r.Rejected++
				ks[1]++
			}
			r.KindStats[t.Req.Kind] = ks
		}
		if b.State != nil {
			for _, u := range b.State.Unknown {
				if len(u) > 12 {
					u = u[:12]
				}
				r.Unknown[u]++
			}
		}
	}
	if nt {
		r.Nontrivial++
	}
	if tr.Dead {
		r.Dead++
		if len(r.DeadAt) < 10 {
			r.DeadAt = append(r.DeadAt, tr.Scenario+": "+tr.DeadAt+fmt.Sprintf(" exit=%d", tr.Exit))
		}
	}
}

func newReport(mode string) *Report {
	return &Report{Mode: mode, KindStats: map[string][2]int{}, Unknown: map[string]int{}, Extra: map[string]interface{}{}}
}

// parallel runs f(i) for i in [0,n) on w goroutines.
func parallel(n, w int, f func(i int)) {
	var wg sync.WaitGroup
	ch := make(chan int)
	for k := 0; k < w; k++ {
		wg.Add(1)
		go func() {
			defer wg.Done()
			for i := range ch {
				f(i)
			}
		}()
	}
	for i := 0; i < n; i++ {
		ch <- i
	}
	close(ch)
	wg.Wait()
}

type common struct {
	seed    int64
	n       int
	blocks  int
	maxTx   int
	out     string
	workers int
	family  string
	scen    string
}

func flags(name string, args []string) (*common, *flag.FlagSet) {
	c := &common{}
	fs := flag.NewFlagSet(name, flag.ExitOnError)
	fs.Int64Var(&c.seed, "seed", 1, "")
	fs.IntVar(&c.n, "n", 20, "scenarios")
	fs.IntVar(&c.blocks, "blocks", 12, "blocks per scenario")
	fs.IntVar(&c.maxTx, "maxtx", 3, "max requests per block")
	fs.StringVar(&c.out, "out", "", "trace output (ndjson)")
	fs.IntVar(&c.workers, "workers", 16, "")
	fs.StringVar(&c.family, "family", "base", "workload family")
	fs.StringVar(&c.scen, "scenario", "", "replay: scenario file")
	_ = fs.Parse(args)
	return c, fs
}

func emit(r *Report) {
	enc := json.NewEncoder(os.Stdout)
	_ = enc.Encode(r)
}

func dispatch(mode string, args []string) bool {
	switch mode {
	case "ledger":
		ledgerMode(args)
	default:
		return dispatch2(mode, args)
	}
	return true
}

// scenarios of a family, deterministic in (seed, index)
func makeScenario(c *common, i int) *vapp.Scenario {
	return vapp.FamilyScenario(c.family, c.seed, i, c.blocks, c.maxTx)
}

// ledgerMode: run generated histories on one replica with state projection and write the
// Ledger_Trace lines.
func ledgerMode(args []string) {
	c, _ := flags("ledger", args)
	rep := newReport("ledger")
	var given []*vapp.Scenario
	if c.scen != "" {
		data, err := os.ReadFile(c.scen)
		if err != nil || json.Unmarshal(data, &given) != nil {
			fmt.Fprintln(os.Stderr, "cannot read scenarios", c.scen, err)
			os.Exit(2)
		}
		c.n = len(given)
	}
	scs := make([]*vapp.Scenario, c.n)
	trs := make([]*vapp.Transcript, c.n)
	errs := make([]error, c.n)
	parallel(c.n, c.workers, func(i int) {
		if given != nil {
			scs[i] = given[i]
		} else {
			scs[i] = makeScenario(c, i)
		}
		trs[i], errs[i] = vapp.Materialise(scs[i], vapp.RunOpts{Identity: "v1", WantState: true})
	})
	f, err := os.Create(c.out)
	if err != nil {
		fmt.Fprintln(os.Stderr, err)
		os.Exit(2)
	}
	w := bufio.NewWriter(f)
	enc := json.NewEncoder(w)
	for i := range scs {
		if errs[i] != nil {
			fmt.Fprintln(os.Stderr, "run error:", errs[i])
			os.Exit(2)
		}
		rep.count(trs[i])
		evs := vapp.LedgerEvents(i+1, scs[i], trs[i])
		for _, e := range evs {
			_ = enc.Encode(e)
			rep.Events++
		}
		if len(rep.Samples) < 2 && len(trs[i].Blocks) > 2 {
			rep.Samples = append(rep.Samples, map[string]interface{}{"scenario": scs[i].ID, "block2": trs[i].Blocks[1].Txs})
		}
	}
	w.Flush()
	f.Close()
	// keep the scenarios and what happened to each request, for attribution and replay files
	sf, _ := os.Create(c.out + ".scenarios.json")
	_ = json.NewEncoder(sf).Encode(scs)
	sf.Close()
	type blk struct {
		H   int64           `json:"h"`
		Txs []vapp.TxRecord `json:"txs"`
	}
	meta := make([][]blk, len(trs))
	for i, tr := range trs {
		for _, b := range tr.Blocks {
			meta[i] = append(meta[i], blk{b.H, b.Txs})
		}
	}
	mf, _ := os.Create(c.out + ".meta.json")
	_ = json.NewEncoder(mf).Encode(meta)
	mf.Close()
	emit(rep)
}
