package main

func dispatch7(mode string, args []string) bool { return false }
