package main

import (
	"bufio"
	"encoding/json"
	"fmt"
	"math/rand"
	"os"

	"verif/harness/vapp"
)

func dispatch7(mode string, args []string) bool {
	switch mode {
	case "hostile":
		hostileMode(args)
	default:
		return dispatch8(mode, args)
	}
	return true
}

type HostileEvent struct {
	T            int    `json:"t"`
	H            int64  `json:"h"`
	Kind         string `json:"kind"`
	Field        string `json:"field"`
	Class        string `json:"class"`
	Check        int64  `json:"check"`        // CheckTx code, -1 process exited, -2 application closed itself
	Deliver      int64  `json:"deliver"`      // DeliverTx code when delivered in a block, same convention; -9 not reached
	ProbeCheck   int64  `json:"probeCheck"`   // CheckTx of a valid SEND afterwards
	ProbeDeliver int64  `json:"probeDeliver"` // its DeliverTx in the next block
	Exit         int    `json:"exit"`
	Len          int    `json:"len"`
}

func code(r *vapp.Reply, p *vapp.Proc) int64 {
	if !r.Alive {
		if p.Closed {
			return -2
		}
		return -1
	}
	return 0
}

// hostileMode (C18): the field x class product of correctly signed hostile transactions of
// every kind, plus sampled arbitrary byte strings; each case on a fresh replica, followed
// by a probe.
func hostileMode(args []string) {
	c, _ := flags("hostile", args)
	given := loadScenarios(c)
	rep := newReport("hostile")
	type res struct {
		evs []HostileEvent
		err error
		sc  *vapp.Scenario
		tr  *vapp.Transcript
	}
	results := make([]res, c.n)
	type job struct {
		si   int
		pk   pick
		rec  vapp.TxRecord
		hc   vapp.HostileCase
		ci   int
		slot int
	}
	var jobs []job
	var gens []*vapp.Genesis
	parallel(c.n, c.workers, func(i int) {
		var sc *vapp.Scenario
		if given != nil {
			sc = given[i]
		} else {
			sc = makeScenario(c, i)
		}
		r := &results[i]
		r.sc = sc
		r.tr, r.err = vapp.Materialise(sc, vapp.RunOpts{Identity: "v1"})
	})
	for i := range results {
		r := &results[i]
		if r.err != nil {
			break
		}
		g := vapp.BuildGenesis(r.sc.Genesis)
		gens = append(gens, g)
		rng := rand.New(rand.NewSource(c.seed*41 + int64(i)))
		for _, pk := range pickTxs(r.tr, rng, c.maxTx) {
			rec := r.tr.Blocks[pk.bi].Txs[pk.ri]
			cases := g.HostileCases(rec.B)
			cases = append(cases, vapp.ByteCases(rec.B.Bytes, rng, 12)...)
			for ci, hc := range cases {
				jobs = append(jobs, job{si: i, pk: pk, rec: rec, hc: hc, ci: ci, slot: len(jobs)})
			}
		}
	}
	evsAll := make([]HostileEvent, len(jobs))
	errsAll := make([]error, len(jobs))
	parallel(len(jobs), c.workers, func(k int) {
		jb := jobs[k]
		i, pk, rec, hc, ci := jb.si, jb.pk, jb.rec, jb.hc, jb.ci
		sc, ref, g := results[i].sc, results[i].tr, gens[i]
		ev := HostileEvent{T: i + 1, H: int64(pk.bi + 1), Kind: hc.Kind, Field: hc.Field, Class: hc.Class, Deliver: -9, ProbeCheck: -9, ProbeDeliver: -9, Len: len(hc.Bytes)}
		p, dir, err := prefixProc(sc, ref, pk.bi)
		if err != nil {
			errsAll[k] = err
			return
		}
		func() {
			defer func() { p.Stop(); os.RemoveAll(dir) }()
			cr := p.Call(&vapp.Cmd{Op: "check", Tx: hc.Bytes})
			if !cr.Alive {
				ev.Check, ev.Exit = code(cr, p), p.Exit
				return
			}
			ev.Check = int64(cr.Tx.Code)
			br := p.Call(&vapp.Cmd{Op: "run_block", Block: blockWith(ref, pk.bi, rec.Index, hc.Bytes)})
			if !br.Alive {
				ev.Deliver, ev.Exit = code(br, p), p.Exit
				return
			}
			ev.Deliver = int64(br.Txs[rec.Index].Code)
			probe := g.Build(vapp.TxReq{Kind: "SEND", A: vapp.A{"from": "a3", "to": "a1", "amt": 1}, Memo: fmt.Sprintf("probe-%d-%d-%d", i, pk.bi, ci)})
			pc := p.Call(&vapp.Cmd{Op: "check", Tx: probe.Bytes})
			if !pc.Alive {
				ev.ProbeCheck, ev.Exit = code(pc, p), p.Exit
				return
			}
			ev.ProbeCheck = int64(pc.Tx.Code)
			nb := *blockWith(ref, pk.bi, rec.Index, nil)
			nb.Height++
			nb.Txs = [][]byte{probe.Bytes}
			nb.Time = nb.Time.Add(10)
			nb.Votes = ref.Concrete[pk.bi].Votes
			if pk.bi+1 < len(ref.Concrete) {
				nb.Votes = ref.Concrete[pk.bi+1].Votes
			}
			pb := p.Call(&vapp.Cmd{Op: "run_block", Block: &nb})
			if !pb.Alive {
				ev.ProbeDeliver, ev.Exit = code(pb, p), p.Exit
				return
			}
			ev.ProbeDeliver = int64(pb.Txs[0].Code)
		}()
		evsAll[k] = ev
	})
	for k, jb := range jobs {
		if errsAll[k] != nil {
			results[jb.si].err = errsAll[k]
			continue
		}
		results[jb.si].evs = append(results[jb.si].evs, evsAll[k])
	}
	f, _ := os.Create(c.out)
	w := bufio.NewWriter(f)
	enc := json.NewEncoder(w)
	kinds := map[string]int{}
	classes := map[string]int{}
	var scs []*vapp.Scenario
	for _, r := range results {
		if r.err != nil {
			fmt.Fprintln(os.Stderr, "run error:", r.err)
			os.Exit(2)
		}
		rep.count(r.tr)
		scs = append(scs, r.sc)
		for _, e := range r.evs {
			_ = enc.Encode(e)
			rep.Events++
			kinds[e.Kind]++
			classes[e.Class]++
			if e.Check < 0 || e.Deliver == -1 || e.Deliver == -2 {
				rep.Dead++
			}
			if len(rep.Samples) < 4 && rep.Events%97 == 1 {
				rep.Samples = append(rep.Samples, e)
			}
		}
	}
	w.Flush()
	f.Close()
	sf, _ := os.Create(c.out + ".scenarios.json")
	_ = json.NewEncoder(sf).Encode(scs)
	sf.Close()
	rep.Extra["cases_per_kind"] = kinds
	rep.Extra["cases_per_class"] = classes
	emit(rep)
}
