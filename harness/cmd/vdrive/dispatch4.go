package main

import (
	"bufio"
	"encoding/json"
	"fmt"
	"math/rand"
	"os"

	"verif/harness/vapp"
)

func dispatch4(mode string, args []string) bool {
	switch mode {
	case "subsys":
		subsysMode(args)
	default:
		return dispatch5(mode, args)
	}
	return true
}

// subsysMode: run generated histories with state projection and write the trace lines of
// one subsystem specification (--spec Staking|NetDelegation|...).
func subsysMode(args []string) {
	c, fs := flags("subsys", args)
	spec := "Staking"
	if fs.NArg() > 0 {
		spec = fs.Arg(0)
	}
	given := loadScenarios(c)
	rep := newReport("subsys:" + spec)
	scs := make([]*vapp.Scenario, c.n)
	trs := make([]*vapp.Transcript, c.n)
	errs := make([]error, c.n)
	parallel(c.n, c.workers, func(i int) {
		if given != nil {
			scs[i] = given[i]
		} else {
			scs[i] = makeScenario(c, i)
		}
		opts := vapp.RunOpts{Identity: "v1", WantState: true}
		if spec == "Rewards" {
			// the node is stopped after a commit and started again at one or two heights of every history (C13: the
			// block reward must not depend on when, within a calculation cycle, the node was restarted)
			rng := rand.New(rand.NewSource(int64(c.seed)*7919 + int64(i)))
			opts.Restart = map[int64]string{}
			for k := 0; k < 2+rng.Intn(3); k++ {
				h := int64(2 + rng.Intn(len(scs[i].Blocks)-2))
				if k == 0 && h%3 == 0 {
					h++ // at least one restart inside a calculation cycle (the cycle of the workload genesis is three blocks)
				}
				opts.Restart[h] = "commit"
			}
		}
		trs[i], errs[i] = vapp.Materialise(scs[i], opts)
	})
	f, err := os.Create(c.out)
	if err != nil {
		fmt.Fprintln(os.Stderr, err)
		os.Exit(2)
	}
	w := bufio.NewWriter(f)
	enc := json.NewEncoder(w)
	for i := range scs {
		if errs[i] != nil {
			fmt.Fprintln(os.Stderr, "run error:", errs[i])
			os.Exit(2)
		}
		rep.count(trs[i])
		n := vapp.WriteSubsysEvents(spec, enc, i+1, scs[i], trs[i])
		rep.Events += n
		if len(rep.Samples) < 2 && len(trs[i].Blocks) > 2 {
			rep.Samples = append(rep.Samples, map[string]interface{}{"scenario": scs[i].ID, "block2": trs[i].Blocks[1].Txs})
		}
	}
	w.Flush()
	f.Close()
	sf, _ := os.Create(c.out + ".scenarios.json")
	_ = json.NewEncoder(sf).Encode(scs)
	sf.Close()
	type blk struct {
		H   int64           `json:"h"`
		Txs []vapp.TxRecord `json:"txs"`
	}
	meta := make([][]blk, len(trs))
	for i, tr := range trs {
		for _, b := range tr.Blocks {
			meta[i] = append(meta[i], blk{b.H, b.Txs})
		}
	}
	mf, _ := os.Create(c.out + ".meta.json")
	_ = json.NewEncoder(mf).Encode(meta)
	mf.Close()
	emit(rep)
}
