package main

func dispatch8(mode string, args []string) bool { return false }
