package main

import (
	"encoding/hex"
	"fmt"
	"os"
	"strings"

	"verif/harness/vapp"
)

func dispatch3(mode string, args []string) bool {
	switch mode {
	case "dump":
		dumpMode(args)
	default:
		return dispatch4(mode, args)
	}
	return true
}

// dumpMode: run one scenario of a family and print what happened and the final tree
// (development aid for the projector).
func dumpMode(args []string) {
	c, fs := flags("dump", args)
	idx := 0
	if fs.NArg() > 0 {
		fmt.Sscan(fs.Arg(0), &idx)
	}
	sc := makeScenario(c, idx)
	dir, _ := os.MkdirTemp("", "vdump")
	defer os.RemoveAll(dir)
	tr, err := vapp.Materialise(sc, vapp.RunOpts{Identity: "v1", WantState: true, Dir: dir})
	if err != nil {
		fmt.Println("error:", err)
		os.Exit(1)
	}
	for _, b := range tr.Blocks {
		fmt.Printf("block %d proposer %s updates %v set %v\n", b.H, b.Proposer, b.Updates, b.Set)
		for _, t := range b.Txs {
			cc, dc, lg := -1, -1, ""
			if t.Check != nil {
				cc = int(t.Check.Code)
				lg = t.Check.Log
			}
			if t.Deliver != nil {
				dc = int(t.Deliver.Code)
				if t.Deliver.Log != "" {
					lg = t.Deliver.Log
				}
			}
			fmt.Printf("   %-16s %v class=%q path=%s check=%d deliver=%d %s\n", t.Req.Kind, t.Req.A, t.Req.Class, t.Path, cc, dc, lg)
		}
	}
	if tr.Dead {
		fmt.Println("DEAD at", tr.DeadAt, "exit", tr.Exit)
		return
	}
	// re-open to dump the tree
	p, _, err := vapp.StartProc(vapp.ReplicaConfig{Dir: dir, Identity: "v1"}, sc.Genesis)
	if err != nil {
		fmt.Println("reopen:", err)
		return
	}
	rep := p.Call(&vapp.Cmd{Op: "dump"})
	for _, kv := range rep.Dump {
		k, _ := hex.DecodeString(kv[0])
		v, _ := hex.DecodeString(kv[1])
		ks := printable(k)
		if strings.HasPrefix(ks, "g_") || strings.HasPrefix(ks, "0x675f") || strings.HasPrefix(ks, "es__svb") {
			continue
		}
		vs := printable(v)
		if len(vs) > 3000 {
			vs = vs[:3000] + "..."
		}
		fmt.Printf("%s => %s\n", ks, vs)
	}
	p.Stop()
}
