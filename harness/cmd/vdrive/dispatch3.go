package main

func dispatch3(mode string, args []string) bool { return false }
