// vdrive: scenario drivers of the whole-application checks.
package main

import (
	"encoding/hex"
	"fmt"
	"os"
	"path/filepath"
	"strconv"
	"time"

	"verif/harness/vapp"
)

func main() {
	if vapp.WorkerBin == "" {
		exe, _ := os.Executable()
		vapp.WorkerBin = filepath.Join(filepath.Dir(exe), "vworker")
	}
	if len(os.Args) < 2 {
		fmt.Fprintln(os.Stderr, "usage: vdrive <mode> ...")
		os.Exit(2)
	}
	switch os.Args[1] {
	case "smoke":
		smoke()
	default:
		if !dispatch(os.Args[1], os.Args[2:]) {
			fmt.Fprintln(os.Stderr, "unknown mode", os.Args[1])
			os.Exit(2)
		}
	}
}

func printable(b []byte) string {
	ok := true
	for _, c := range b {
		if c < 32 || c > 126 {
			ok = false
		}
	}
	if ok {
		return string(b)
	}
	return "0x" + hex.EncodeToString(b) + " (" + strconv.Quote(string(b)) + ")"
}

func smoke() {
	dir, _ := os.MkdirTemp("", "vsmoke")
	defer os.RemoveAll(dir)
	gs := vapp.DefaultGenesis()
	g := vapp.BuildGenesis(gs)
	p, rep, err := vapp.StartProc(vapp.ReplicaConfig{Dir: dir, Identity: "v1"}, gs)
	if err != nil {
		fmt.Println("start:", err, rep)
		os.Exit(1)
	}
	fmt.Println("open:", rep.Height, rep.Hash)
	rep = p.Call(&vapp.Cmd{Op: "initchain"})
	fmt.Println("initchain:", rep.OK, rep.Err, rep.Updates)
	hash := ""
	t0 := time.Now()
	reqs := [][]vapp.TxReq{
		{{Kind: "SEND", A: map[string]interface{}{"from": "a1", "to": "a2", "amt": 500}}},
		{{Kind: "STAKE", A: map[string]interface{}{"v": "v3", "d": "sv3", "amt": 4}}, {Kind: "DELEGATE", A: map[string]interface{}{"d": "a2", "amt": 300}}},
		{{Kind: "UNSTAKE", A: map[string]interface{}{"v": "v1", "d": "sv1", "amt": 1}}, {Kind: "UNDELEGATE", A: map[string]interface{}{"d": "a2", "amt": 100}}},
		{}, {}, {},
	}
	for h := int64(1); h <= int64(len(reqs)); h++ {
		b := &vapp.BlockSpec{Height: h, Time: vapp.GenesisTime.Add(time.Duration(h*10) * time.Second), Proposer: "v1"}
		if h > 1 {
			b.Votes = []vapp.Vote{{"v1", 5, true}, {"v2", 4, true}}
			hb, _ := hex.DecodeString(hash)
			b.AppHash = hb
		}
		for _, r := range reqs[h-1] {
			bt := g.Build(r)
			cr := p.Call(&vapp.Cmd{Op: "check", Tx: bt.Bytes})
			fmt.Println(" check", r.Kind, cr.Tx.Code, cr.Tx.Log)
			b.Txs = append(b.Txs, bt.Bytes)
		}
		rep = p.Call(&vapp.Cmd{Op: "run_block", Block: b, WantOrder: true})
		if !rep.Alive {
			fmt.Println("worker died, exit", p.Exit)
			os.Exit(1)
		}
		fmt.Println("block", h, rep.OK, rep.Err, rep.Hash, rep.Txs, rep.Updates, len(rep.Order), "keys written")
		for _, e := range rep.Events {
			fmt.Println("   event", e.Type, e.Attrs)
		}
		hash = rep.Hash
	}
	fmt.Println("elapsed", time.Since(t0))
	rep = p.Call(&vapp.Cmd{Op: "dump"})
	for _, kv := range rep.Dump {
		k, _ := hex.DecodeString(kv[0])
		v, _ := hex.DecodeString(kv[1])
		vs := printable(v)
		if len(vs) > 300 {
			vs = vs[:300] + "..."
		}
		fmt.Printf("%s => %s\n", printable(k), vs)
	}
	p.Stop()
}
