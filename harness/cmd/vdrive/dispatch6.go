package main

func dispatch6(mode string, args []string) bool { return false }
