package main

import (
	"bufio"
	"encoding/hex"
	"encoding/json"
	"fmt"
	"math/rand"
	"os"

	"verif/harness/vapp"
)

func dispatch6(mode string, args []string) bool {
	switch mode {
	case "auth":
		authMode(args)
	case "replay":
		replayMode(args)
	default:
		return dispatch7(mode, args)
	}
	return true
}

// prefixProc starts a fresh replica and executes the reference blocks 1..upto (exclusive of
// block index upto) with the reference's mempool checks.
func prefixProc(sc *vapp.Scenario, ref *vapp.Transcript, upto int) (*vapp.Proc, string, error) {
	dir, err := os.MkdirTemp("", "vcase")
	if err != nil {
		return nil, "", err
	}
	p, _, err := vapp.StartProc(vapp.ReplicaConfig{Dir: dir, Identity: "v1"}, sc.Genesis)
	if err != nil {
		os.RemoveAll(dir)
		return nil, "", err
	}
	if r := p.Call(&vapp.Cmd{Op: "initchain"}); !r.Alive {
		p.Stop()
		os.RemoveAll(dir)
		return nil, "", fmt.Errorf("dead at initchain")
	}
	for j := 0; j < upto; j++ {
		b := ref.Concrete[j]
		r := p.Call(&vapp.Cmd{Op: "run_block", Block: &b, PreChecks: ref.Checked[j]})
		if !r.Alive || !r.OK {
			p.Stop()
			os.RemoveAll(dir)
			return nil, "", fmt.Errorf("prefix block %d failed: %s", j+1, r.Err)
		}
		if r.Hash != ref.Blocks[j].Hash {
			p.Stop()
			os.RemoveAll(dir)
			return nil, "", fmt.Errorf("prefix block %d: hash differs from the reference (C01 decides that)", j+1)
		}
	}
	return p, dir, nil
}

type AuthEvent struct {
	T          int    `json:"t"`
	Kind       string `json:"kind"`
	Mut        string `json:"mut"`
	Pos        int    `json:"pos"`
	H          int64  `json:"h"`
	OrigCheck  uint32 `json:"origCheck"`
	MutCheck   int64  `json:"mutCheck"`   // -1: the node died
	MutDeliver int64  `json:"mutDeliver"` // -1: the node died
	SameHash   bool   `json:"sameHash"`   // block with the mutant == block without it
	Others     bool   `json:"others"`     // results of the other transactions unchanged
	Tx         string `json:"tx"`
}

type pick struct {
	bi, ri int // block index, record index
}

func pickTxs(ref *vapp.Transcript, rng *rand.Rand, k int) []pick {
	byKind := map[string][]pick{}
	for bi, b := range ref.Blocks {
		for ri, t := range b.Txs {
			if t.Included && t.Check != nil && t.Check.Code == 0 && t.B != nil && t.Deliver != nil && t.Deliver.Code == 0 && t.Path == "honest" {
				// accepted requests of an adversarial class (a sequence number with a gap, a large amount ...) are a kind of their own
				kd := t.Req.Kind
				if t.Req.Class != "" {
					kd += "/" + t.Req.Class
				}
				byKind[kd] = append(byKind[kd], pick{bi, ri})
			}
		}
	}
	var out []pick
	kinds := []string{}
	for kd := range byKind {
		kinds = append(kinds, kd)
	}
	sortStrings(kinds)
	for len(out) < k && len(kinds) > 0 {
		i := rng.Intn(len(kinds))
		ps := byKind[kinds[i]]
		out = append(out, ps[rng.Intn(len(ps))])
		kinds = append(kinds[:i], kinds[i+1:]...)
	}
	return out
}

func sortStrings(s []string) {
	for i := range s {
		for j := i + 1; j < len(s); j++ {
			if s[j] < s[i] {
				s[i], s[j] = s[j], s[i]
			}
		}
	}
}

// blockWith returns block bi of the reference with transaction idx replaced (repl != nil)
// or removed (repl == nil).
func blockWith(ref *vapp.Transcript, bi, idx int, repl []byte) *vapp.BlockSpec {
	b := ref.Concrete[bi]
	nb := b
	nb.Txs = nil
	for i, t := range b.Txs {
		if i == idx {
			if repl != nil {
				nb.Txs = append(nb.Txs, repl)
			}
			continue
		}
		nb.Txs = append(nb.Txs, t)
	}
	return &nb
}

func sameOthers(base, with []vapp.TxResult, idx int, replaced bool) bool {
	j := 0
	for i := range with {
		if replaced && i == idx {
			continue
		}
		if j >= len(base) {
			return false
		}
		a, b := base[j], with[i]
		if a.Code != b.Code || a.Data != b.Data || a.GasUsed != b.GasUsed {
			return false
		}
		j++
	}
	return j == len(base)
}

// authMode (C04): every mutation class of accepted transactions of every kind.
func authMode(args []string) {
	c, _ := flags("auth", args)
	given := loadScenarios(c)
	rep := newReport("auth")
	type res struct {
		evs []AuthEvent
		err error
		sc  *vapp.Scenario
		tr  *vapp.Transcript
	}
	results := make([]res, c.n)
	parallel(c.n, c.workers, func(i int) {
		var sc *vapp.Scenario
		if given != nil {
			sc = given[i]
		} else {
			sc = makeScenario(c, i)
		}
		r := &results[i]
		r.sc = sc
		ref, err := vapp.Materialise(sc, vapp.RunOpts{Identity: "v1"})
		if err != nil {
			r.err = err
			return
		}
		r.tr = ref
		g := vapp.BuildGenesis(sc.Genesis)
		rng := rand.New(rand.NewSource(c.seed*31 + int64(i)))
		for _, pk := range pickTxs(ref, rng, c.maxTx) {
			rec := ref.Blocks[pk.bi].Txs[pk.ri]
			// the block without the transaction
			p, dir, err := prefixProc(sc, ref, pk.bi)
			if err != nil {
				r.err = err
				return
			}
			base := p.Call(&vapp.Cmd{Op: "run_block", Block: blockWith(ref, pk.bi, rec.Index, nil)})
			p.Stop()
			os.RemoveAll(dir)
			if !base.Alive {
				r.err = fmt.Errorf("node died on a block without the picked transaction")
				return
			}
			other := g.Acct("n2")
			nsig := len(rec.B.Msg.Signers())
			for _, m := range vapp.Mutations {
				for pos := 0; pos < nsig; pos++ {
					if pos > 0 && (m == "payload" || m == "feePrice" || m == "feeGas" || m == "feeCurrency" || m == "memo" || m == "type" || m == "dropSigner" || m == "addSigner" || m == "swapSigners" || m == "unsigned") {
						continue
					}
					mb := g.Mutate(rec.B, m, pos, other)
					if mb == nil {
						continue
					}
					p, dir, err := prefixProc(sc, ref, pk.bi)
					if err != nil {
						r.err = err
						return
					}
					ev := AuthEvent{T: i + 1, Kind: rec.Req.Kind, Mut: m, Pos: pos + 1, H: int64(pk.bi + 1), OrigCheck: rec.Check.Code, Tx: hex.EncodeToString(mb)}
					cr := p.Call(&vapp.Cmd{Op: "check", Tx: mb})
					if !cr.Alive {
						ev.MutCheck, ev.MutDeliver = -1, -1
					} else {
						ev.MutCheck = int64(cr.Tx.Code)
						br := p.Call(&vapp.Cmd{Op: "run_block", Block: blockWith(ref, pk.bi, rec.Index, mb)})
						if !br.Alive {
							ev.MutDeliver = -1
						} else {
							ev.MutDeliver = int64(br.Txs[rec.Index].Code)
							ev.SameHash = br.Hash == base.Hash
							ev.Others = sameOthers(base.Txs, br.Txs, rec.Index, true)
						}
					}
					p.Stop()
					os.RemoveAll(dir)
					r.evs = append(r.evs, ev)
				}
			}
		}
	})
	f, _ := os.Create(c.out)
	w := bufio.NewWriter(f)
	enc := json.NewEncoder(w)
	kinds := map[string]int{}
	var scs []*vapp.Scenario
	for _, r := range results {
		if r.err != nil {
			fmt.Fprintln(os.Stderr, "run error:", r.err)
			os.Exit(2)
		}
		rep.count(r.tr)
		scs = append(scs, r.sc)
		for _, e := range r.evs {
			_ = enc.Encode(e)
			rep.Events++
			kinds[e.Kind]++
			if len(rep.Samples) < 3 && e.Mut == "payload" {
				x := e
				x.Tx = x.Tx[:40] + "..."
				rep.Samples = append(rep.Samples, x)
			}
		}
	}
	w.Flush()
	f.Close()
	sf, _ := os.Create(c.out + ".scenarios.json")
	_ = json.NewEncoder(sf).Encode(scs)
	sf.Close()
	rep.Extra["cases_per_kind"] = kinds
	emit(rep)
}

type ReplayEvent struct {
	T         int    `json:"t"`
	Kind      string `json:"kind"`
	Enc       string `json:"enc"`
	H         int64  `json:"h"`
	Later     int    `json:"later"`     // how many blocks after execution the resubmission happens
	Check     int64  `json:"check"`     // CheckTx code of the resubmission, -1 node died
	Deliver   int64  `json:"deliver"`   // DeliverTx code when delivered in a later block
	SameHash  bool   `json:"sameHash"`  // later block with the resubmission == without it
	SameBytes bool   `json:"sameBytes"` // the encoding is byte-identical to the executed transaction
	Parses    bool   `json:"parses"`
	// the same bytes once more, one block after the first resubmission was delivered (and refused): -2 = not attempted
	Check2    int64 `json:"check2"`
	Deliver2  int64 `json:"deliver2"`
	SameHash2 bool  `json:"sameHash2"`
}

// replayMode (C05): executed transactions are resubmitted in every encoding class.
func replayMode(args []string) {
	c, _ := flags("replay", args)
	given := loadScenarios(c)
	rep := newReport("replay")
	type res struct {
		evs []ReplayEvent
		err error
		sc  *vapp.Scenario
		tr  *vapp.Transcript
	}
	results := make([]res, c.n)
	parallel(c.n, c.workers, func(i int) {
		var sc *vapp.Scenario
		if given != nil {
			sc = given[i]
		} else {
			sc = makeScenario(c, i)
		}
		r := &results[i]
		r.sc = sc
		ref, err := vapp.Materialise(sc, vapp.RunOpts{Identity: "v1"})
		if err != nil {
			r.err = err
			return
		}
		r.tr = ref
		rng := rand.New(rand.NewSource(c.seed*37 + int64(i)))
		for _, pk := range pickTxs(ref, rng, c.maxTx) {
			rec := ref.Blocks[pk.bi].Txs[pk.ri]
			later := 1 + rng.Intn(3)
			li := pk.bi + later // index of the later block
			if li >= len(ref.Concrete) {
				continue
			}
			for _, enc := range vapp.Encodings {
				nb := vapp.Reencode(rec.B.Bytes, enc)
				if nb == nil {
					continue
				}
				ev := ReplayEvent{T: i + 1, Kind: rec.Req.Kind, Enc: enc, H: int64(pk.bi + 1), Later: later, SameBytes: string(nb) == string(rec.B.Bytes), Parses: true,
					Check2: -2, Deliver2: -2}
				p, dir, err := prefixProc(sc, ref, li)
				if err != nil {
					r.err = err
					return
				}
				cr := p.Call(&vapp.Cmd{Op: "check", Tx: nb})
				if !cr.Alive {
					ev.Check, ev.Deliver = -1, -1
				} else {
					ev.Check = int64(cr.Tx.Code)
					lb := ref.Concrete[li]
					with := lb
					with.Txs = append([][]byte{nb}, lb.Txs...)
					br := p.Call(&vapp.Cmd{Op: "run_block", Block: &with})
					if !br.Alive {
						ev.Deliver = -1
					} else {
						ev.Deliver = int64(br.Txs[0].Code)
						ev.SameHash = br.Hash == ref.Blocks[li].Hash
						// what the node recorded about the refused resubmission must not make it forget the execution:
						// the same bytes a third time, in the next block
						if ev.SameHash && ev.SameBytes && li+1 < len(ref.Concrete) {
							cr2 := p.Call(&vapp.Cmd{Op: "check", Tx: nb})
							if !cr2.Alive {
								ev.Check2, ev.Deliver2 = -1, -1
							} else {
								ev.Check2 = int64(cr2.Tx.Code)
								nx := ref.Concrete[li+1]
								nx.Txs = append([][]byte{nb}, nx.Txs...)
								br2 := p.Call(&vapp.Cmd{Op: "run_block", Block: &nx})
								if !br2.Alive {
									ev.Deliver2 = -1
								} else {
									ev.Deliver2 = int64(br2.Txs[0].Code)
									ev.SameHash2 = br2.Hash == ref.Blocks[li+1].Hash
								}
							}
						}
					}
				}
				p.Stop()
				os.RemoveAll(dir)
				r.evs = append(r.evs, ev)
			}
		}
	})
	f, _ := os.Create(c.out)
	w := bufio.NewWriter(f)
	enc := json.NewEncoder(w)
	kinds := map[string]int{}
	var scs []*vapp.Scenario
	for _, r := range results {
		if r.err != nil {
			fmt.Fprintln(os.Stderr, "run error:", r.err)
			os.Exit(2)
		}
		rep.count(r.tr)
		scs = append(scs, r.sc)
		for _, e := range r.evs {
			_ = enc.Encode(e)
			rep.Events++
			kinds[e.Kind]++
			if len(rep.Samples) < 3 {
				rep.Samples = append(rep.Samples, e)
			}
		}
	}
	w.Flush()
	f.Close()
	sf, _ := os.Create(c.out + ".scenarios.json")
	_ = json.NewEncoder(sf).Encode(scs)
	sf.Close()
	rep.Extra["cases_per_kind"] = kinds
	emit(rep)
}
