module verif/harness

go 1.13

require (
	github.com/Oneledger/protocol v0.0.0
	github.com/tendermint/tm-db v0.5.1
)

replace github.com/Oneledger/protocol => /repo
