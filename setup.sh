#!/bin/bash
# One-time setup after a fresh restore (offline): checks the tools, wires the harness
# module to /repo, does one warm build and parses every specification with SANY.
set -e
cd "$(dirname "$0")"
export GOFLAGS=-mod=mod GOPROXY=off GOSUMDB=off GOTOOLCHAIN=local
for t in go java tlc tla-sany python3; do command -v $t >/dev/null || { echo "missing tool $t"; exit 2; }; done
cp /repo/go.sum harness/go.sum
mkdir -p evidence replays
T=$(mktemp -d)
trap 'rm -rf "$T"' EXIT
(cd harness && go build -tags verif -ldflags=-checklinkname=0 -o "$T/" ./cmd/...)
cp specs/*.tla "$T/"
(cd "$T" && for f in *.tla; do JAVA_TOOL_OPTIONS="-Djava.io.tmpdir=$T" tla-sany "$f" > "$T/sany.out" 2>&1 || { cat "$T/sany.out"; echo "SANY failed on $f"; exit 2; }; done)
echo "setup ok"
