"""C12 - delegation pool consistency and undelegation maturity (NetDelegation.tla, NetDelegation_Trace.tla)."""
import subsys

MC = ("netdeleg", "NSpec", dict(Ds={"d1", "d2"}, Amts={1, 2}, K=2, MaxH=4),
      ["InvPoolCovers", "InvNonNegative", "InvPaidAtMaturity"], [], "ClaimBound", None)
TRACE = dict(Ds=set(), Amts=set(), K=0, MaxH=0)


def corrupt(e):
    # a pending undelegation that survives its maturity height: re-insert a paid entry
    if e["ev"] == "Block" and e["s"]["pend"]:
        hk = sorted(e["s"]["pend"])[0]
        d = sorted(e["s"]["pend"][hk])[0]
        e["s"]["pend"][hk][d] += 1
        return "Pending.paidExactlyAtMaturity"
    return None


def run(ctx, replay):
    subsys.run(ctx, "C12", replay, "NetDelegation", MC, ["deleg"], TRACE, corrupt,
               "seeded histories of delegate/undelegate/withdraw-rewards/reinvest (several per block and per delegator, adversarial amounts, donations to the pool) with reward claims preloaded at genesis; one evaluation = one block re-computed by TLC (BeginBlock maturities at height+4, guards and effects of every accepted transaction incl. fee and balances) and compared with the projected delegation records and all OLT balances")
