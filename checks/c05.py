"""C05 - at-most-once: a signed transaction never takes effect twice.

Replay.tla is model-checked twice: keyed by signed content (the property's rule) AtMostOnce
holds; with the deviation that transcribes the code (replay record keyed by the received
bytes) TLC produces the re-encoding counterexample (the pinned tree had it; repaired by the canonical-encoding fix recorded in known_findings.json - the deviation run remains as the control that the invariant is not vacuous).
Executed transactions of generated histories are resubmitted 1-3 blocks later in every encoding
class (identical, whitespace, key order, extra field, duplicate key, key case) to CheckTx and
inside a later block; TLC validates the case trace."""
import json, os
import vlib, cases
from ledger import vdrive

MC = dict(Contents={"c1", "c2"}, Encs={"canonical", "whitespace", "keyOrder"}, MaxH=3, Deviations=set())
FAMILIES = ["benign", "stake", "deleg", "alleg", "eth", "erc20", "gov", "ons", "olvm", "bid"]


def run(ctx, replay):
    ctx.build("vworker", "vdrive")
    ctx.sany("Replay", "Replay_Trace")
    mc = ctx.tlc("Replay", "mc.cfg", name="replay-mc", cfg_text=vlib.cfg_text("RSpec", MC, ["AtMostOnce"], constraint="ExecBound"))
    dev = ctx.tlc("Replay", "dev.cfg", name="replay-dev", allow_violation=True,
                  cfg_text=vlib.cfg_text("RSpec", dict(MC, Deviations={"rawBytesKey"}), ["AtMostOnce"], constraint="ExecBound"))
    if dev["ok"] or "Invariant AtMostOnce is violated" not in dev["text"]:
        raise vlib.ToolFailure("the deviation transcribing the code's replay record did not produce the re-encoding counterexample")
    quick = ctx.quick()
    n, blocks, per = (10, 10, 4) if quick else (80, 14, 6)
    total = 0
    kinds = {}
    samples = []
    fams = FAMILIES
    if replay:
        rp = json.load(open(replay))
        sf = os.path.join(ctx.tmp, "replay-scen.json")
        json.dump([rp["scenario"]], open(sf, "w"))
        fams = [rp.get("family", "benign")]
    first = None
    reenc_reproduced = False
    for fam in fams:
        tf = os.path.join(ctx.tmp, "replay-%s.ndjson" % fam)
        args = ["--family", fam, "--seed", ctx.seed, "--n", n, "--blocks", blocks, "--maxtx", per, "--out", tf]
        if replay:
            args += ["--scenario", sf]
        rep = vdrive(ctx, "replay", *args)
        first = first or tf
        lines = [json.loads(l) for l in open(tf)]
        scs = json.load(open(tf + ".scenarios.json"))
        seen = set()
        for (p, line, t, h) in cases.validate(ctx, "Replay", MC, tf, "trace-replay-" + fam):
            e = lines[line - 1]
            sig = {"property_part": p, "bytes": "same" if e["sameBytes"] else "different"}
            if not e["sameBytes"]:
                reenc_reproduced = True
            key = json.dumps(dict(sig, kind=e["kind"], enc=e["enc"]), sort_keys=True)
            if key in seen:
                continue
            seen.add(key)
            ctx.violation(sig, {"engine": "replay", "family": fam, "scenario": scs[t - 1], "case": e},
                          "%s: %s executed in block %d, resubmitted %d block(s) later as '%s' encoding: CheckTx code %d, DeliverTx code %d, later block unchanged %s" % (
                              p, e["kind"], e["h"], e["later"], e["enc"], e["check"], e["deliver"], e["sameHash"]))
        total += rep["events"]
        for k, v in rep["extra"]["cases_per_kind"].items():
            kinds[k] = kinds.get(k, 0) + v
        samples += rep["samples"][:1]
        ctx.log("replay/%s: %d histories, %d resubmission cases over kinds %s" % (fam, rep["scenarios"], rep["events"], sorted(rep["extra"]["cases_per_kind"])))
    if total == 0:
        raise vlib.ToolFailure("no resubmission case was produced")
    if not replay:
        lines = open(first).read().splitlines()
        idx = [i for i, l in enumerate(lines) if '"enc":"identical"' in l][0]
        e = json.loads(lines[idx])
        e["check"] = 0
        bad = os.path.join(ctx.tmp, "replay-corrupt.ndjson")
        open(bad, "w").write("\n".join(lines[:idx] + [json.dumps(e)] + lines[idx + 1:]) + "\n")
        if not any(p == "ResubmissionRejectedByCheckTx" and line == idx + 1 for (p, line, t, h) in cases.validate(ctx, "Replay", MC, bad, "selftest")):
            raise vlib.ToolFailure("self-test: an accepted identical resubmission was not reported")
        ctx.notes.append("binding self-test: an identical resubmission logged as accepted is reported")
        ctx.notes.append("re-encoded resubmissions accepted by the real code: %s (the pinned tree accepted them; fixed)" % reenc_reproduced)
    ctx.cov.update(states=mc["distinct"] + dev.get("distinct", 0), transitions=mc["generated"] + dev.get("generated", 0),
                   traces_validated_against_impl=len(fams), evaluations=total, distinct_nontrivial=total, cases_per_kind=kinds, samples=samples,
                   rule="one case = one executed transaction of a generated history resubmitted 1-3 blocks later in one encoding class, to CheckTx and as first transaction of that later block (compared with the same block without it); every case runs on a fresh replica; all cases are non-trivial (the original had executed)")
    ctx.assumptions += ["the harness feeds the node's transaction index at every commit as Tendermint does",
                        "duplicates inside one block are outside the property (it speaks about resubmission after execution in a block)"]
