"""C03 - no unauthorised debit (see lib/ledger.py)."""
import ledger


def run(ctx, replay):
    ledger.run(ctx, "C03", replay)
