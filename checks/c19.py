"""C19 - allegations: verdicts follow votes, frozen stays frozen, penalties bounded (Allegation.tla, Allegation_Trace.tla)."""
import subsys

MC = ("allegation", "LSpec", dict(Vals={"v1", "v2", "v3"}, Ids={"r1", "r2"}, VotePct=50, AllegPct=50, MaxH=4), ["VerdictOnlyAboveShare"], [], None, None)
MC2 = ("allegation-4", "LSpec", dict(Vals={"v1", "v2", "v3", "v4"}, Ids={"r1"}, VotePct=50, AllegPct=50, MaxH=3), ["VerdictOnlyAboveShare"], [], None, None)
TRACE = dict(Vals=set(), Ids=set(), VotePct=0, AllegPct=0, MaxH=0)


def corrupt(e):
    # a verdict announced although nobody voted
    if e["ev"] == "Block" and e["reqPost"] and not e["verdicts"]:
        rid = sorted(e["reqPost"])[0]
        if e["reqPost"][rid]["votes"]:
            return None
        e["verdicts"] = {e["reqPost"][rid]["accused"]: "guilty"}
        return "VerdictOnlyAboveShare.guilty"
    return None


def run(ctx, replay):
    subsys.run(ctx, "C19", replay, "Allegation", MC, ["alleg", "allegset"], TRACE, corrupt,
               "seeded histories with four active validators: allegations and votes by validators and by outsiders, duplicate votes, concurrent allegations (also against the same accused), releases, staking transactions on frozen validators, absent signers (missed-vote freezes) and month-long block-time jumps around the release time; one evaluation = one block whose transactions TLC applies with the specification's guards and whose tally it re-computes with exact rationals",
               extra_mc=[MC2])
