"""C11 - stake lifecycle (Staking.tla, Staking_Trace.tla; see lib/subsys.py)."""
import subsys

MC = ("staking", "SSpec", dict(Vs={"v1", "v2"}, Ds={"d1", "d2"}, Amts={1, 2}, Maturity=2, MaxH=4),
      ["InvTotalIsSum", "InvNonNegative", "InvWithdrawnBounded", "InvConservation", "InvOnlyMatured"], [], "StakeBound", None)
MC1 = ("staking-m1", "SSpec", dict(Vs={"v1"}, Ds={"d1", "d2"}, Amts={1, 2}, Maturity=1, MaxH=6),
       ["InvTotalIsSum", "InvNonNegative", "InvWithdrawnBounded", "InvConservation", "InvOnlyMatured"], [], "StakeBound", None)
TRACE = dict(Vs=set(), Ds=set(), Amts=set(), Maturity=0, MaxH=0)


def corrupt(e):
    # a withdrawable amount that is one too high
    if e["ev"] == "Block" and e["s"]["bnd"]:
        k = sorted(e["s"]["bnd"])[0]
        e["s"]["bnd"][k] += 1
        return "Lifecycle.withdrawable"
    return None


def run(ctx, replay):
    subsys.run(ctx, "C11", replay, "Staking", MC, ["base", "stake"], TRACE, corrupt,
               "seeded histories of stake/unstake/withdraw (several per block and per delegator, adversarial amounts, foreign stake addresses) mixed with transfers and delegation traffic; one evaluation = one block re-computed by TLC (guards of accepted transactions, effects, block-end maturity) and compared with the projected stake records",
               extra_mc=[MC1])
