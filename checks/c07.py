"""C07 - mempool checks are isolated from consensus execution (AppArch.tla; Replica.tla and lib/replica.py for the executions)."""
import replica, vlib

ARCH = dict(MaxBlocks=2, MaxChecks=3, MaxTx=2, Deviations=set())
ARCH_DEVS = ["proposalsUnboundInBegin", "feeOptUnboundInBegin", "checkUpdatesMemory", "olvmValidateThroughCache",
             "validatorListCachedByVersion", "stakeMapOutsideSession"]


def run(ctx, replay):
    if not replay:
        # the pointer/taint model of the shared stores: every schedule of two blocks and three CheckTx calls; each
        # counterexample of a deviation is a schedule the executions below replay (families gov, govfee)
        ctx.sany("AppArch")
        r = ctx.tlc("AppArch", "arch.cfg", name="apparch-mc", cfg_text=vlib.cfg_text("Spec", ARCH, ["NoTaintInConsensus", "TypeOK"]))
        for dev in ARCH_DEVS:
            d = ctx.tlc("AppArch", "archdev.cfg", name="apparch-dev-" + dev, allow_violation=True,
                        cfg_text=vlib.cfg_text("Spec", dict(ARCH, Deviations={dev}), ["NoTaintInConsensus", "TypeOK"]))
            if d["ok"] or "Invariant NoTaintInConsensus is violated" not in d["text"]:
                raise vlib.ToolFailure("vacuity control failed: AppArch deviation %s not caught" % dev)
        ctx.cov["apparch_states"] = r["distinct"]
    replica.run(ctx, "C07", replay, families=replica.FAMILIES + ["govfee", "stakefail"])
    ctx.cov.setdefault("rule", RULE)


RULE = "per history one twin without any CheckTx and four twins with CheckTx calls injected at call boundaries (one twin: every boundary of one block; others: 1-6 random boundaries, 1-3 calls each), the injected transactions drawn from the history's own past and future transactions, fresh valid and adversarial requests, and garbage bytes; family govfee replays the schedules AppArch.tla's deviations produce: a user-sent finalise request of a passed fee-option proposal checked by the mempool before the block in which the application finalises it, with transfers at the old fee price delivered first in that block"
