"""C07 - mempool checks are isolated from consensus execution (see lib/replica.py)."""
import replica


def run(ctx, replay):
    replica.run(ctx, "C07", replay)
    ctx.cov.setdefault("rule", RULE)


RULE = "per history one twin without any CheckTx and four twins with CheckTx calls injected at call boundaries (one twin: every boundary of one block; others: 1-6 random boundaries, 1-3 calls each), the injected transactions drawn from the history's own past and future transactions, fresh valid and adversarial requests, and garbage bytes"
