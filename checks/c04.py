"""C04 - only authentically signed, untampered transactions are admitted or executed.

TxAuth.tla (admission rule of ValidateBasic vs. the property's notion of authenticity) is
model-checked over kind-arity x mutation x signer position; on the real application every
mutation class is applied to transactions that the node had accepted (harvested from generated
histories of every workload family), submitted to CheckTx and delivered in place of the
original; TLC validates the case trace with the same admission rule."""
import json, os
import vlib, cases
from ledger import vdrive

MC = dict(Keys={"k1", "k2", "k3"}, Arity={1, 2})
FAMILIES = ["benign", "stake", "deleg", "alleg", "eth", "erc20", "gov", "ons", "olvm", "bid"]
NSIG = {"STAKE": 2, "UNSTAKE": 2, "WITHDRAW": 2, "PROP_VOTE": 2}


def run(ctx, replay):
    ctx.build("vworker", "vdrive")
    ctx.sany("TxAuth", "TxAuth_Trace")
    mc = ctx.tlc("TxAuth", "mc.cfg", name="txauth-mc", cfg_text=vlib.cfg_text("ASpec", MC, ["AdmittedIffAuthentic", "HonestAdmitted", "MutantsRejected"]))
    quick = ctx.quick()
    n, blocks, per = (8, 10, 4) if quick else (60, 14, 6)
    total = 0
    kinds = {}
    samples = []
    fams = FAMILIES
    if replay:
        rp = json.load(open(replay))
        sf = os.path.join(ctx.tmp, "replay-scen.json")
        json.dump([rp["scenario"]], open(sf, "w"))
        fams = [rp.get("family", "benign")]
    first = None
    for fam in fams:
        tf = os.path.join(ctx.tmp, "auth-%s.ndjson" % fam)
        args = ["--family", fam, "--seed", ctx.seed, "--n", n, "--blocks", blocks, "--maxtx", per, "--out", tf]
        if replay:
            args += ["--scenario", sf]
        rep = vdrive(ctx, "auth", *args)
        # the trace specification needs the arity of the kind
        lines = [json.loads(l) for l in open(tf)]
        for e in lines:
            e["nsig"] = NSIG.get(e["kind"], 1)
        open(tf, "w").write("".join(json.dumps(e) + "\n" for e in lines))
        first = first or tf
        scs = json.load(open(tf + ".scenarios.json"))
        seen = set()
        for (p, line, t, h) in cases.validate(ctx, "TxAuth", MC, tf, "trace-auth-" + fam):
            e = lines[line - 1]
            sig = {"property_part": p, "kind": e["kind"], "mutation": e["mut"]}
            key = json.dumps(sig, sort_keys=True)
            if key in seen:
                continue
            seen.add(key)
            ctx.violation(sig, {"engine": "auth", "family": fam, "scenario": scs[t - 1], "case": e},
                          "%s: %s mutant (%s, signer %d) of an accepted %s: CheckTx code %d, DeliverTx code %d, block unchanged %s" % (
                              p, e["mut"], e["kind"], e["pos"], e["kind"], e["mutCheck"], e["mutDeliver"], e["sameHash"] and e["others"]))
        total += rep["events"]
        for k, v in rep["extra"]["cases_per_kind"].items():
            kinds[k] = kinds.get(k, 0) + v
        samples += rep["samples"][:1]
        ctx.log("auth/%s: %d histories, %d mutant cases over kinds %s" % (fam, rep["scenarios"], rep["events"], sorted(rep["extra"]["cases_per_kind"])))
    if total == 0:
        raise vlib.ToolFailure("no mutant case was produced")
    if not replay:
        # binding self-test: an admitted mutant must be reported
        lines = open(first).read().splitlines()
        e = json.loads(lines[0])
        e["mutCheck"] = 0
        bad = os.path.join(ctx.tmp, "auth-corrupt.ndjson")
        open(bad, "w").write("\n".join([json.dumps(e)] + lines[1:]) + "\n")
        if not any(p == "MutantRejectedByCheckTx" and line == 1 for (p, line, t, h) in cases.validate(ctx, "TxAuth", MC, bad, "selftest")):
            raise vlib.ToolFailure("self-test: an admitted mutant was not reported")
        ctx.notes.append("binding self-test: a mutant logged as accepted by CheckTx is reported")
    ctx.cov.update(states=mc["distinct"], transitions=mc["generated"], traces_validated_against_impl=len(fams), evaluations=total,
                   distinct_nontrivial=total, exhaustive=False, cases_per_kind=kinds, samples=samples,
                   rule="one case = one mutation class (14 classes: payload, fee price/gas/currency, memo, type, substituted key, flipped signature, dropped/added/swapped signer, algorithm label, re-signed by another key, unsigned) at one signer position of one transaction that CheckTx had accepted; every case runs on a fresh replica at the chain state in which the original was accepted; all cases are non-trivial (the original was accepted)")
    ctx.assumptions += ["cryptographic strength of the signature schemes is an abstract predicate (a signature verifies iff made by the attached key over the submitted content)",
                        "transaction kinds covered are those of the workload families (see cases_per_kind); OLVM transactions (EIP-155) are covered by C17"]
