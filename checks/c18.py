"""C18 - no transaction input can crash or halt the node.

Hostile.tla is the liveness monitor and enumerates class x path; on the real application the
field x class product is derived from transactions the node had accepted (every payload field
and sub-field x 19 hostile values, envelope fields, signature-list shapes), correctly signed,
run on a fresh replica through CheckTx and inside a block, followed by a probe; arbitrary byte
strings derived from valid transactions are sampled.  TLC validates the case trace."""
import json, os
import vlib, cases
from ledger import vdrive

CLASSES = {"null", "emptyString", "negative", "zero", "gtInt64", "gtUint64", "negativeString", "hugeString", "notANumberString", "emptyObject",
           "emptyArray", "boolean", "longString", "shortAddress", "badHexAddress", "unknownCurrency", "nullValueAmount", "float", "delete"}
MC = dict(Classes=CLASSES, Paths={"check", "honest", "direct"}, Outcomes={"reject", "accept"})
FAMILIES = ["benign", "stake", "deleg", "alleg", "eth", "erc20", "gov", "ons", "olvm", "bid"]
HISTORY_FAMILIES = ["base", "stake", "deleg", "alleg", "eth", "eth5", "valset", "failing", "gov", "govmix", "ons", "onsmix", "olvm", "erc20", "bid", "bidmix", "base@gas"]


def run(ctx, replay):
    ctx.build("vworker", "vdrive")
    ctx.sany("Hostile", "Hostile_Trace")
    mc = ctx.tlc("Hostile", "mc.cfg", name="hostile-mc", cfg_text=vlib.cfg_text("HSpec", MC, ["StaysUp"]))
    quick = ctx.quick()
    n, blocks, per = (3, 10, 4) if quick else (30, 14, 6)
    fams = FAMILIES
    if replay:
        rp = json.load(open(replay))
        sf = os.path.join(ctx.tmp, "replay-scen.json")
        json.dump([rp["scenario"]], open(sf, "w"))
        fams = [rp.get("family", "benign")]
    total = 0
    kinds, classes = {}, {}
    samples = []
    first = None
    fields = set()
    for fam in fams:
        tf = os.path.join(ctx.tmp, "hostile-%s.ndjson" % fam)
        args = ["--family", fam, "--seed", ctx.seed, "--n", n, "--blocks", blocks, "--maxtx", per, "--out", tf]
        if replay:
            args += ["--scenario", sf]
        rep = vdrive(ctx, "hostile", *args)
        first = first or tf
        lines = [json.loads(l) for l in open(tf)]
        scs = json.load(open(tf + ".scenarios.json"))
        for e in lines:
            fields.add((e["kind"], e["field"], e["class"]))
        seen = set()
        for (p, line, t, h) in cases.validate(ctx, "Hostile", MC, tf, "trace-hostile-" + fam):
            e = lines[line - 1]
            effect = "process-exit" if -1 in (e["check"], e["deliver"], e["probeCheck"], e["probeDeliver"]) else (
                "application-closed" if -2 in (e["check"], e["deliver"], e["probeCheck"], e["probeDeliver"]) else "probe-changed")
            stage = "CheckTx" if e["check"] < 0 else ("DeliverTx" if e["deliver"] < 0 else "afterwards")
            sig = {"kind": e["kind"], "field": e["field"], "class": e["class"], "effect": effect, "stage": stage}
            key = json.dumps(sig, sort_keys=True)
            if key in seen:
                continue
            seen.add(key)
            ctx.violation(sig, {"engine": "hostile", "family": fam, "scenario": scs[t - 1], "case": e},
                          "%s: %s with %s=%s -> %s in %s (codes check=%d deliver=%d probe=%d/%d)" % (
                              p, e["kind"], e["field"], e["class"], effect, stage, e["check"], e["deliver"], e["probeCheck"], e["probeDeliver"]))
        total += rep["events"]
        for k, v in rep["extra"]["cases_per_kind"].items():
            kinds[k] = kinds.get(k, 0) + v
        for k, v in rep["extra"]["cases_per_class"].items():
            classes[k] = classes.get(k, 0) + v
        samples += rep["samples"][:1]
        ctx.log("hostile/%s: %d histories, %d cases, %d deaths" % (fam, rep["scenarios"], rep["events"], rep["dead"]))
    # every workload family of the other checks: a node death anywhere in a generated history is a C18 violation
    hist_deaths = 0
    hist_runs = 0
    if not replay:
        for fam in HISTORY_FAMILIES:
            tf = os.path.join(ctx.tmp, "hist-%s.ndjson" % fam)
            rep = vdrive(ctx, "ledger", "--family", fam, "--seed", ctx.seed, "--n", 40 if quick else 400, "--blocks", 14, "--out", tf)
            hist_runs += rep["scenarios"]
            hist_deaths += rep["dead"]
            scs = json.load(open(tf + ".scenarios.json"))
            for d in rep.get("dead_at") or []:
                # "eth-1-3: check h=5 ETH_REPORT exit=-2"
                sid, rest = d.split(": ", 1)
                kind = rest.split()[2] if rest.startswith("check") else "block"
                sig = {"effect": "node-death-in-history", "stage": rest.split()[0], "kind": kind, "family": fam}
                sc = [x for x in scs if x["id"] == sid]
                ctx.violation(sig, {"engine": "history", "family": fam, "scenario": sc[0] if sc else None}, "the node died in generated history %s" % d)
            ctx.log("histories/%s: %d histories, %d deaths" % (fam, rep["scenarios"], rep["dead"]))
    if total == 0:
        raise vlib.ToolFailure("no hostile case was produced")
    if not replay:
        lines = open(first).read().splitlines()
        e = json.loads(lines[0])
        e["deliver"] = -2
        bad = os.path.join(ctx.tmp, "hostile-corrupt.ndjson")
        open(bad, "w").write("\n".join([json.dumps(e)] + lines[1:]) + "\n")
        if not any(p == "StaysUp.deliverTx" and line == 1 for (p, line, t, h) in cases.validate(ctx, "Hostile", MC, bad, "selftest")):
            raise vlib.ToolFailure("self-test: a closed application was not reported")
        ctx.notes.append("binding self-test: a case logged as 'application closed itself in DeliverTx' is reported")
    ctx.level = "model_checking"
    ctx.cov.update(states=mc["distinct"], transitions=mc["generated"], traces_validated_against_impl=len(fams), evaluations=total,
                   distinct_nontrivial=len(fields), history_runs=hist_runs, history_deaths=hist_deaths, cases_per_kind=kinds, cases_per_class=classes, samples=samples,
                   rule="one case = one accepted transaction of a generated history with one payload field, sub-field or envelope field set to one hostile value (19 values; or the field deleted), correctly re-signed by the original signers, sent to CheckTx and delivered in place of the original on a fresh replica, followed by a probe transfer; plus 12 sampled byte-level variants per transaction (truncation, bit flips, random bytes up to 64 KiB, JSON insertions, deep nesting); distinct = distinct (kind, field, class)")
    ctx.assumptions += ["'all byte strings' is sampled; the field x class product is complete for the fields of the kinds in the workload families",
                        "each case runs in its own worker process so that os.Exit and a closed application are observed from outside"]
