"""C09 - the layered state store behaves like a transactional, versioned map.

specs/Storage.tla is model-checked exhaustively (invariants + action properties), its
labelled state graph is exported and every path up to a length bound is executed on the real
storage.State / ChainState (plain and gas-metered, memdb and goleveldb), every answer compared
with the value TLC computed, every commit hash compared with a flat twin fed with the
specification's write log and with a twin that skips reads and discarded sessions; TLC-simulated
long behaviours are replayed the same way; seeded random runs of the real store are recorded and
validated by TLC against Storage_Trace."""
import json, os, random
import vlib

BASE = dict(Keys={"k1", "k2"}, Vals={"a", "b"}, MaxCommits=2, MaxSteps=8, MaxPend=2,
            Recent=0, Every=0, Cycles=0, TombstoneLeak=False)
INVS = ["TypeOK", "OrderMatchesMap", "DeletedIsAbsent", "LastVersionLive", "ReopenIsLastCommit", "LogReproducesVersions"]
PROPS = ["VersionsImmutable", "ReadsDontWrite", "DiscardInvisible", "ReadYourWrites"]


def vstore(ctx, *args, timeout=3000):
    p = ctx.run([os.path.join(ctx.bin, "vstore")] + [str(a) for a in args], timeout=timeout)
    return json.loads(p.stdout.strip().splitlines()[-1])


def report_mismatches(ctx, rep, where):
    for m in rep.get("first_mismatches") or []:
        sig = {"where": "storage", "class": classify(m)}
        text = "%s: %s step %d op %s got %r want %r (sequence %s)" % (
            where, m["kind"], m["step"], m["op"]["n"], m["got"], m["want"],
            " ".join(o["n"] + ("(" + o["k"] + ("," + o["v"] if o["v"] else "") + ")" if o["k"] else "") for o in m["ops"]))
        ctx.violation(sig, {"mismatch": m, "engine": "vstore"}, text)


def classify(m):
    return "%s:%s" % (m["kind"], m["op"]["n"])


def run(ctx, replay):
    ctx.build("vstore")
    if replay:
        rep = vstore(ctx, "replay", replay)
        report_mismatches(ctx, rep, "replay")
        ctx.cov.update(evaluations=1, distinct_nontrivial=0, states=1, transitions=1,
                       traces_validated_against_impl=0, samples=[replay])
        return
    quick = ctx.quick()
    ctx.sany("Storage", "Storage_Gen", "Storage_Trace")

    # 1. exhaustive model checking: the design as transcribed satisfies the property
    c = dict(BASE, MaxSteps=8 if quick else 10)
    r1 = ctx.tlc("Storage", "mc.cfg", extra=["-coverage", "1"], name="mc",
                 cfg_text=vlib.cfg_text("Spec", c, INVS, PROPS, view="View", constraint="StepBound"))
    zero = [a for a in vlib.coverage_zero_actions(r1["text"])]
    if zero:
        raise vlib.ToolFailure("vacuous model: actions never taken: %s" % zero)
    # rotation: one key, five commits, recent/every/cycles exercised
    c2 = dict(BASE, Keys={"k1"}, MaxCommits=5, MaxSteps=9 if quick else 12, Recent=0, Every=2, Cycles=1)
    r2 = ctx.tlc("Storage", "rot.cfg", name="rot",
                 cfg_text=vlib.cfg_text("Spec", c2, INVS, PROPS, view="View", constraint="StepBound"))
    c3 = dict(c2, Recent=1, Every=2, Cycles=1)
    r3 = ctx.tlc("Storage", "rot2.cfg", name="rot2",
                 cfg_text=vlib.cfg_text("Spec", c3, INVS, PROPS, view="View", constraint="StepBound"))
    states = r1["distinct"] + r2["distinct"] + r3["distinct"]
    trans = r1["generated"] + r2["generated"] + r3["generated"]

    # 2. graph export -> all paths up to L on the real store
    L = 4 if quick else 5
    total_paths = total_seqs = nontrivial = 0
    samples = []
    exports = [("plain", dict(BASE, MaxCommits=2, MaxSteps=L), ["--backends", "memdb", "--gas", "plain,gas"])]
    if not quick:
        exports.append(("rot", dict(BASE, MaxCommits=3, MaxSteps=L, Recent=0, Every=2, Cycles=1),
                        ["--backends", "memdb", "--gas", "plain", "--recent", 0, "--every", 2, "--cycles", 1]))
    exports.append(("leveldb", dict(BASE, MaxCommits=2, MaxSteps=3 if quick else 4),
                    ["--backends", "goleveldb", "--gas", "plain", "--dir", ctx.tmp]))
    for name, consts, vargs in exports:
        out = os.path.join(ctx.tmp, "edges-%s.out" % name)
        g = ctx.tlc("Storage_Gen", "gen.cfg", workers=1, name="gen-" + name, outfile=out,
                    cfg_text=vlib.cfg_text("Spec", consts, view="GenView", constraint="StepBound", action_constraint="Emit"))
        rep = vstore(ctx, "paths", "--edges", out, "--len", consts["MaxSteps"], *vargs)
        os.remove(out)
        if rep["paths"] == 0:
            raise vlib.ToolFailure("no paths enumerated for " + name)
        ctx.log("paths[%s]: %d paths, %d runs, %d ops, %d commits, mismatches %d" % (
            name, rep["paths"], rep["stats"]["sequences"], rep["stats"]["operations"], rep["stats"]["commits"], rep["stats"]["mismatches"]))
        report_mismatches(ctx, rep, "paths[%s]" % name)
        total_paths += rep["paths"]
        total_seqs += rep["stats"]["sequences"]
        nontrivial += rep["stats"]["nontrivial"]
        samples += [" ".join(o["n"] + "(" + ",".join(x for x in (o["k"], o["v"]) if x) + ")=" + (o["r"] if o["n"] != "Iter" else json.dumps(o.get("it"))) for o in s) for s in (rep.get("samples") or [])[:2]]

    # 2b. thorough: edge cover of the complete <=1-commit graph
    if not quick:
        out = os.path.join(ctx.tmp, "edges-full.out")
        consts = dict(BASE, MaxCommits=1, MaxSteps=1000000, MaxPend=1)
        ctx.tlc("Storage_Gen", "gen.cfg", workers=1, name="gen-full", outfile=out, timeout=3000,
                cfg_text=vlib.cfg_text("Spec", consts, view="GenView", action_constraint="Emit"))
        rep = vstore(ctx, "paths", "--edges", out, "--len", 0, "--cover", "--backends", "memdb", "--gas", "plain")
        os.remove(out)
        ctx.log("cover: %d states %d edges, %d cover runs, mismatches %d" % (rep["graph_states"], rep["graph_edges"], rep["cover_edges"], rep["stats"]["mismatches"]))
        report_mismatches(ctx, rep, "edge-cover")
        ctx.cov["edge_cover_runs"] = rep["cover_edges"]
        total_seqs += rep["stats"]["sequences"]

    # 3. long simulated behaviours of a larger configuration
    sim_consts = dict(Keys={"k1", "k2", "k3"}, Vals={"a", "b"}, MaxCommits=5, MaxSteps=1000000, MaxPend=3,
                      Recent=1, Every=2, Cycles=1, TombstoneLeak=False)
    out = os.path.join(ctx.tmp, "sim.out")
    nsim = 150 if quick else 3000
    ctx.tlc("Storage_Gen", "sim.cfg", workers=1, name="sim", outfile=out, allow_violation=True,
            extra=["-simulate", "num=%d" % nsim, "-depth", "120", "-seed", str(ctx.seed)],
            cfg_text=vlib.cfg_text("Spec", sim_consts, action_constraint="Emit"))
    rep = vstore(ctx, "sim", "--edges", out, "--recent", 1, "--every", 2, "--cycles", 1, "--backends", "memdb", "--gas", "plain,gas")
    os.remove(out)
    if rep["paths"] < nsim // 2:
        raise vlib.ToolFailure("simulation produced too few behaviours: %d" % rep["paths"])
    ctx.log("sim: %d behaviours, %d ops, %d commits, mismatches %d" % (rep["paths"], rep["stats"]["operations"], rep["stats"]["commits"], rep["stats"]["mismatches"]))
    report_mismatches(ctx, rep, "simulated")
    sim_behaviours = rep["paths"]

    # 4. traces of the real store validated by TLC
    tconsts = dict(Keys={"k1", "k2", "k3"}, Vals={"a", "b"}, MaxCommits=4, MaxSteps=1000000, MaxPend=1000,
                   Recent=0, Every=2, Cycles=1, TombstoneLeak=False)
    ntr = 300 if quick else 3000
    validated = 0
    for variant, gas in (("plain", "plain"), ("gas", "gas")):
        tf = os.path.join(ctx.tmp, "trace-%s.ndjson" % variant)
        rep = vstore(ctx, "trace", "--seed", ctx.seed * 2 + (1 if gas == "gas" else 0), "--n", ntr, "--len", 60, "--keys", 3, "--vals", 2,
                     "--commits", 4, "--recent", 0, "--every", 2, "--cycles", 1, "--gas", gas, "--out", tf)
        cfgt = vlib.cfg_text("TraceSpec", tconsts, INVS, postcondition="TraceAccepted")
        tr = ctx.tlc("Storage_Trace", "trace.cfg", workers=1, name="trace-" + variant, files=[(tf, "trace.ndjson")],
                     cfg_text=cfgt, allow_violation=True)
        if not tr["ok"]:
            # which line? the number of matched states tells
            line = first_rejected(tr, tf)
            ctx.violation({"where": "storage", "class": "trace-rejected:" + line.get("n", "?")},
                          {"engine": "tlc-trace", "trace_line": line, "variant": variant, "tlc_tail": tr["text"][-1500:]},
                          "trace of the real store rejected by Storage_Trace at %s" % json.dumps(line))
        else:
            validated += rep["traces"]
        if variant == "plain":
            # binding self-test: a corrupted result and a dropped event must be rejected
            selftest(ctx, tf, cfgt)
        if len(samples) < 6:
            with open(tf) as fh:
                samples.append([json.loads(next(fh)) for _ in range(6)])

    ctx.cov.update(states=states, transitions=trans, traces_validated_against_impl=validated,
                   evaluations=total_seqs, distinct_nontrivial=nontrivial,
                   rule="every path of length <= %d of the TLC-exported Storage graph (2 keys x 2 values, all 13 operations), each run on every listed store variant; distinct = distinct operation sequences; non-trivial = contains a write followed later by a read" % L,
                   exhaustive=True, paths_enumerated=total_paths, path_length=L, simulated_behaviours=sim_behaviours,
                   samples=samples[:8])
    ctx.assumptions += ["TLC/SANY and CommunityModules are trusted",
                        "the vstore driver maps operations 1:1 onto storage.State's public API",
                        "gas metering is not modelled; plain and metered stores must give the same answers",
                        "bounds: 2 keys x 2 values for exhaustive parts, 3 keys for simulation and traces"]


def first_rejected(tr, tf):
    import re
    m = re.search(r'matched-states", (\d+), "of", (\d+)', tr["text"])
    lines = open(tf).read().splitlines()
    if not m:
        return {"n": "?", "note": "no post-condition output"}
    d = int(m.group(1))
    # d states = 1 + consumed lines + resets; walk the file to find the line index
    consumed = 0
    states = 1
    prev_t = None
    for i, ln in enumerate(lines):
        e = json.loads(ln)
        if prev_t is not None and e["t"] != prev_t:
            states += 1
        prev_t = e["t"]
        if states >= d:
            e["line"] = i + 1
            return e
        states += 1
    return {"n": "?"}


def selftest(ctx, tf, cfgt):
    lines = open(tf).read().splitlines()
    rnd = random.Random(ctx.seed)
    # corrupt the result of one Get that returned a value
    idx = [i for i, ln in enumerate(lines) if '"n":"Get"' in ln and '"r":"-"' not in ln]
    if not idx:
        raise vlib.ToolFailure("self-test: no Get with a value in the trace")
    i = rnd.choice(idx)
    e = json.loads(lines[i])
    e["r"] = "b" if e["r"] == "a" else "a"
    bad = os.path.join(ctx.tmp, "trace-corrupt.ndjson")
    open(bad, "w").write("\n".join(lines[:i] + [json.dumps(e)] + lines[i + 1:]) + "\n")
    r = ctx.tlc("Storage_Trace", "trace.cfg", workers=1, name="selftest-corrupt", files=[(bad, "trace.ndjson")], cfg_text=cfgt, allow_violation=True)
    if r["ok"]:
        raise vlib.ToolFailure("self-test: a corrupted Get result was accepted (binding broken)")
    # drop one Set whose value is read later: find a Set followed by a Get of the same key returning that value
    for j, ln in enumerate(lines):
        e = json.loads(ln)
        if e["n"] != "Set":
            continue
        for k in range(j + 1, min(j + 6, len(lines))):
            f = json.loads(lines[k])
            if f["t"] != e["t"] or (f["n"] in ("Set", "Delete") and f["k"] == e["k"]) or f["n"] in ("Discard", "Reopen", "Begin"):
                break
            if f["n"] == "Get" and f["k"] == e["k"] and f["r"] == e["v"]:
                # was the value different before the Set?  only then dropping must be noticed
                bad2 = os.path.join(ctx.tmp, "trace-drop.ndjson")
                open(bad2, "w").write("\n".join(lines[:j] + lines[j + 1:]) + "\n")
                r2 = ctx.tlc("Storage_Trace", "trace.cfg", workers=1, name="selftest-drop", files=[(bad2, "trace.ndjson")], cfg_text=cfgt, allow_violation=True)
                if not r2["ok"]:
                    ctx.notes.append("binding self-test: corrupted result rejected, dropped event rejected")
                    return
                break
    ctx.notes.append("binding self-test: corrupted result rejected (no droppable event found that changes a later read)")
