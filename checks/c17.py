"""C17 - OLVM transactions keep one ledger and charge exactly the gas used (Olvm.tla, Olvm_Trace.tla)."""
import json
import subsys, vlib

C = dict(Eoas={"e1", "e2"}, Natives={"a1"}, Progs={"store", "revert", "forward", "suicide"}, G=3, Amts={0, 2}, InitBal=8, MaxSteps=3, Deviations=set())
INVS = ["InvConserved", "InvNonNegative"]
PROPS = ["PropNonceByOne", "PropPoolGrows"]
MC = ("olvm", "MSpec", C, INVS, PROPS, None, None)
MCBIG = ("olvm-4", "MSpec", dict(C, MaxSteps=4), INVS, PROPS, None, None)
TRACE = dict(Eoas=set(), Natives=set(), Progs=set(), G=0, Amts=set(), InitBal=0, MaxSteps=0, Deviations=set())
SEEN = {}


def corrupt(e):
    # an executed transaction whose sender paid less than gas used times price
    if e["ev"] == "Block":
        for x in e["txs"]:
            if x["k"] == "OLVM" and x["used"] > 0:
                e["s"]["bal"][x["from"]] += 7
                return "Balances.exact"
    return None


def tally(tf):
    for hist in json.load(open(tf + ".meta.json")):
        for blk in hist:
            for x in blk.get("txs") or []:
                if x["req"].get("class") == "fork:before":
                    k = "refused before the fork" if not (x.get("deliver") and x["deliver"]["code"] == 0) else "ACCEPTED before the fork"
                    SEEN[k] = SEEN.get(k, 0) + 1
    for ln in open(tf):
        e = json.loads(ln)
        for x in e["txs"]:
            if x["k"] != "OLVM":
                k = "native transfer"
            elif x["to"] == "":
                k = "creation %s" % ("ok" if x["status"] == "1" else "failed")
            else:
                k = "call/transfer %s%s" % ("ok" if x["status"] == "1" else "failed", " (all gas used)" if x["used"] == x["gas"] else "")
            SEEN[k] = SEEN.get(k, 0) + 1
            if x["k"] == "OLVM" and x.get("nested"):
                SEEN["nested failing call, outer call pays"] = SEEN.get("nested failing call, outer call pays", 0) + 1
            if x["probed"] >= 0:
                SEEN["balance read through the EVM"] = SEEN.get("balance read through the EVM", 0) + 1
            if x["k"] == "OLVM" and e.get("fork", 1) > 1 and e["h"] == e["fork"]:
                SEEN["executed in the fork block"] = SEEN.get("executed in the fork block", 0) + 1
            if x["k"] == "OLVM" and x["price"] > 1:
                SEEN["gas price above 1"] = SEEN.get("gas price above 1", 0) + 1


def run(ctx, replay):
    if not replay:
        d = ctx.tlc("Olvm", "dev.cfg", name="olvm-dev", allow_violation=True,
                    cfg_text=vlib.cfg_text("MSpec", dict(C, Deviations={"keepGasOnFailure"}), INVS, PROPS))
        if d["ok"] or "Invariant InvConserved is violated" not in d["text"]:
            raise vlib.ToolFailure("vacuity control failed: deviation keepGasOnFailure not caught by InvConserved")
    subsys.run(ctx, "C17", replay, "Olvm", MC, ["olvm", "olvmfork"], TRACE, corrupt,
               "seeded histories on a genesis with the EVM enabled: three EVM accounts deploy seven hand-assembled programs (counter, forwarder, balance probe, reverting, looping, self-destructing, refund-earning toggle, and a pair making a nested call that creates an account, touches others and fails while the outer call goes on and pays; also creation code that reverts), call them with and without value, move value between EVM accounts, native accounts, fresh addresses and contracts, natives pay EVM accounts and contracts; deviations delivered with and without the mempool check: sequence numbers too low and with gaps, unpayable value or gas, gas below the intrinsic cost, wrong chain id, another account's signature, wrong memo, higher gas prices; one evaluation = one block re-computed by TLC (who may execute, outcome per program, gas used times price to the fee pool, value to where the program sends it, sequence numbers, code set) and compared exactly with all balances, sequence numbers, coded addresses and the fee pool",
               n_blocks=(40, 16) if ctx.quick() else (500, 22), extra_mc=[] if ctx.quick() else [MCBIG], tally=tally)
    if not replay:
        need = ["native transfer", "creation ok", "creation failed", "call/transfer ok", "call/transfer failed", "call/transfer failed (all gas used)",
                "balance read through the EVM", "gas price above 1", "executed in the fork block", "refused before the fork", "nested failing call, outer call pays"]
        miss = [k for k in need if not SEEN.get(k)]
        if miss:
            raise vlib.ToolFailure("workload too poor: never observed: %s (seen %s)" % (miss, SEEN))
        ctx.cov["steps_observed"] = dict(SEEN)
