"""C02 - no value creation, no negative amounts (see lib/ledger.py)."""
import ledger


def run(ctx, replay):
    ledger.run(ctx, "C02", replay)
