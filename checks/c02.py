"""C02 - no value creation, no negative amounts (see lib/ledger.py); the bid application's escrow (Bid.tla, Bid_Trace.tla);
the fee pool (Fees.tla, Fees_Trace.tla, lib/feeslib.py)."""
import json, os
import bidlib, feeslib, ledger, subsys, vlib
from bidlib import BID_TRACE
from ledger import vdrive

BID_C = dict(Accts={"a1", "a2"}, Amts={1, 2}, MaxT=2, InitBal=2, Deviations=set())
BID_CBIG = dict(BID_C, MaxT=3)
BID_INVS = ["InvConserved", "InvNonNegative", "InvOfferIffActive"]
BID_PROPS = ["PropForwardOnly", "PropAssetWithPayment", "PropDeadlineEnforced"]
BID_DEVS = [("refundCounter", "Invariant InvConserved is violated"), ("negativeBid", "Invariant InvNonNegative is violated")]


def bid(ctx):
    """The bid application: bounded model of Bid.tla, then histories of the real application re-computed block by block."""
    ctx.sany("Bid", "Bid_Trace")
    cov = {}
    states = trans = 0
    for name, consts in [("bid", BID_C)] + ([] if ctx.quick() else [("bid-big", BID_CBIG)]):
        r = ctx.tlc("Bid", "mc.cfg", name="mc-" + name, extra=["-coverage", "1"], cfg_text=vlib.cfg_text("BSpec", consts, BID_INVS, BID_PROPS))
        zero = vlib.coverage_zero_actions(r["text"])
        if zero:
            raise vlib.ToolFailure("vacuous model %s: actions never taken: %s" % (name, zero))
        states += r["distinct"]
        trans += r["generated"]
    for dev, want in BID_DEVS:
        d = ctx.tlc("Bid", "dev.cfg", name="bid-dev-" + dev, allow_violation=True, cfg_text=vlib.cfg_text("BSpec", dict(BID_C, Deviations={dev}), BID_INVS, BID_PROPS))
        if d["ok"] or want not in d["text"]:
            raise vlib.ToolFailure("vacuity control failed: Bid deviation %s not caught (%s)" % (dev, want))
    n, blocks = (40, 18) if ctx.quick() else (500, 24)
    conf = {}
    tot = dict(scenarios=0, blocks=0, txs=0, accepted=0, dead=0)
    kinds = {}
    first = None
    for fam in ["bid", "bidmix"]:
        tf = os.path.join(ctx.tmp, "Bid-%s.ndjson" % fam)
        rep = vdrive(ctx, "subsys", "--family", fam, "--seed", ctx.seed, "--n", n, "--blocks", blocks, "--out", tf, "Bid")
        first = first or tf
        for k, v in bidlib.violations(ctx, tf, fam, "Value.").items():
            conf[k] = conf.get(k, 0) + v
        for k in tot:
            tot[k] += rep.get(k, 0)
        for k, v in rep["kind_stats"].items():
            if k.startswith("BID_"):
                kinds[k] = [kinds.get(k, [0, 0])[0] + v[0], kinds.get(k, [0, 0])[1] + v[1]]
        ctx.log("Bid/%s: %d histories, %d blocks, %d requests (%d accepted), %d deaths" % (fam, rep["scenarios"], rep["blocks"], rep["txs"], rep["accepted"], rep["dead"]))
    # binding self-test: an open bid whose recorded amount is negative
    lines = open(first).read().splitlines()
    done = False
    for i, ln in enumerate(lines):
        e = json.loads(ln)
        if e["ev"] == "Block" and e["s"]["offer"]:
            k = sorted(e["s"]["offer"])[0]
            e["s"]["offer"][k]["amt"] = -5
            bad = os.path.join(ctx.tmp, "bid-corrupt.ndjson")
            open(bad, "w").write("\n".join(lines[:i] + [json.dumps(e)] + lines[i + 1:]) + "\n")
            v = subsys.validate(ctx, "Bid", BID_TRACE, bad, "bid-selftest")
            if not any(p == "Value.NonNegative" and line == i + 1 for (p, line, t, h) in v):
                raise vlib.ToolFailure("self-test: corrupted offer not reported as Value.NonNegative (got %s)" % v[:5])
            done = True
            break
    if not done:
        raise vlib.ToolFailure("self-test: no open bid in the first family's traces (workload too poor)")
    cov.update(states=states, transitions=trans, histories=tot["scenarios"], blocks_recomputed=tot["blocks"], requests=tot["txs"], accepted=tot["accepted"],
               node_deaths=tot["dead"], per_kind_accepted_rejected=kinds, conformance_notes=conf,
               rule="guided histories of the bid application (conversations on registered names and on an example asset, counter offers, second bids below the counter offer, accept / reject by both sides, cancel, early expiry requests by anybody, deadlines on, just before and just after a block's time, strangers, closed conversations, names put on sale, adversarial amounts and an unknown asset type) and random mixes; every block is re-computed by TLC with the operators of Bid.tla; Value.* findings (negative amounts, escrow not conserved) are violations of C02, Conf.* differences are listed here as notes")
    return cov


def run(ctx, replay):
    if replay and json.load(open(replay)).get("spec") == "Bid":
        bidlib.replay(ctx, replay, "Value.")
        return
    if replay and json.load(open(replay)).get("spec") == "Fees":
        feeslib.replay(ctx, replay)
        return
    bidcov = feecov = None
    if not replay:
        ctx.build("vworker", "vdrive")
        bidcov = bid(ctx)
        feecov = feeslib.run(ctx)
    ledger.run(ctx, "C02", replay)
    if feecov:
        ctx.cov["fee_pool"] = feecov
        ctx.notes.append("binding self-tests (Fees_Trace): five units appearing in the pool are reported as Value.PoolFedByFees; a unit credited to another stake address than the rule says is reported as Conf.DistributionByPower")
        if feecov["conformance_notes"]:
            ctx.notes.append("fee distribution differs from Fees.tla (no listed property speaks about it): %s" % feecov["conformance_notes"])
    if bidcov:
        ctx.cov["bid_application"] = bidcov
        ctx.notes.append("binding self-test (Bid_Trace): an open bid with a negative recorded amount is reported as Value.NonNegative")
