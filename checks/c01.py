"""C01 - replica determinism (see lib/replica.py)."""
import replica


def run(ctx, replay):
    replica.run(ctx, "C01", replay)
    ctx.cov.setdefault("rule", RULE)


RULE = 'one evaluation = one trace event (block result of one execution) compared by TLC with the reference; every history is run by the reference (validator v1), a second run of v1, validator v2 with the witness flag set, v1 as witness with an emptied job store, and a non-validator with chain-state rotation; a history is non-trivial when at least one request was accepted'
