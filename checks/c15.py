"""C15 - cross-chain lock/redeem: threshold-gated, exactly-once mint and refund (EthTracker.tla, EthTracker_Trace.tla)."""
import vlib, subsys

C = dict(Wits={"w1", "w2", "w3", "w4"}, Outsiders={"x1"}, Users={"u1", "u2"}, Deviations=set())
INVS = ["InvSupply", "InvAtMostOnce", "InvThreshold", "InvOnlyWitnessVotes", "InvMintToSubmitter"]
MC = ("ethtracker", "ESpec", C, INVS, [], None, None)
MC3 = ("ethtracker-3wit", "ESpec", dict(C, Wits={"w1", "w2", "w3"}), INVS, [], None, None)
TRACE = dict(Wits={"w1"}, Outsiders=set(), Users={"u1"}, Deviations=set())


def corrupt(e):
    # a wrapped balance that is 7 units too high
    if e["ev"] == "Block" and e["trk"] and e["bal"]:
        k = sorted(o for o in e["bal"] if not o.startswith("pool:"))[0]
        e["bal"][k] += 7
        return "MintAndRefundExact.balances"
    return None


def run(ctx, replay):
    if not replay:
        ctx.build("vworker", "vdrive")
        d = ctx.tlc("EthTracker", "dev.cfg", name="ethtracker-dev", allow_violation=True,
                    cfg_text=vlib.cfg_text("ESpec", dict(C, Deviations={"mintToReported"}), INVS))
        if d["ok"] or "Invariant InvMintToSubmitter is violated" not in d["text"]:
            raise vlib.ToolFailure("vacuity control failed: deviation mintToReported not caught by InvMintToSubmitter")
    subsys.run(ctx, "C15", replay, "EthTracker", MC, ["eth", "eth5", "erc20", "ethstory"], TRACE, corrupt,
               "seeded histories with four witnesses (threshold 3): duplicate lock/redeem submissions of a pool of six external transactions (built and signed offline with go-ethereum against the LockRedeem ABI), finality reports yes/no by witnesses and outsiders, with wrong and out-of-range vote indexes, repeated votes, and reports that lie about the beneficiary; family ethstory is guided: every external transaction is submitted and decided (finality or failure) by all witnesses reporting in one block, or threshold-many in one block and the rest later, or one per block, with late and repeated reports in the block of the deciding report and after it, and the same external transaction submitted again, on the genesis documents with four witnesses, with the ERC20 token, and with five witnesses in turn; one evaluation = one block re-computed by TLC (guards, vote slots, threshold crossing, mint to the tracker's owner, refund, supply counter) and compared with the projected tracker records and all wrapped balances",
               extra_mc=[MC3])
