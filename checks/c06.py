"""C06 - failed transactions are atomic no-ops (see lib/replica.py)."""
import replica


def run(ctx, replay):
    replica.run(ctx, "C06", replay)
    ctx.cov.setdefault("rule", RULE)


RULE = 'the twin gets every block without the transactions that failed on the reference; application hash, validator updates and the results of the surviving transactions are compared for every block; non-trivial = history with at least one accepted request'
