"""C06 - failed transactions are atomic no-ops (see lib/replica.py)."""
import replica


def run(ctx, replay):
    # family stakefail: a validator without power stakes again with a gas limit its fee step cannot meet (the handler has
    # run to the end when the transaction fails), or stakes properly and sends a failing unstake of everything
    replica.run(ctx, "C06", replay, families=replica.FAMILIES + ["stakefail"])
    ctx.cov.setdefault("rule", RULE)


RULE = 'the twin gets every block without the transactions that failed on the reference; application hash, validator updates and the results of the surviving transactions are compared for every block; non-trivial = history with at least one accepted request'
