"""C14 - governance proposals: lifecycle order, deadlines, vote outcome, configuration update, escrowed funds
(Governance.tla, Governance_Trace.tla)."""
import json
import subsys, vlib

C = dict(Props={"p1", "p2"}, Voters={"v1", "v2"}, MaxH=5, Deviations=set())
PROPS = ["PropForwardOnly", "PropExpireAfterDeadline", "PropOutcomeFollowsVotes", "PropExpiredOnlyIfUndecided"]
MC = ("governance", "GSpec", C, ["InvAppliedOnce", "InvDecidedAsVotesSay"], PROPS, None, None)
TRACE = dict(Props=set(), Voters=set(), MaxH=0, Deviations=set())
SEEN = {}


def corrupt(e):
    # a proposal shown as expired although its voting deadline has not passed
    for p, r in sorted(e["post"].items()):
        if r["status"] == 36 and e["h"] <= r["voteDL"] and e["pre"].get(p, {}).get("status") == 36:
            r.update(store="Failed", status=37, outcome=40)
            return "ExpireOnlyAfterDeadline"
    return None


def tally(tf):
    for ln in open(tf):
        e = json.loads(ln)
        for p, r in e["post"].items():
            q = e["pre"].get(p)
            if q is None:
                k = "created"
            elif (q["store"], q["status"], q["outcome"]) == (r["store"], r["status"], r["outcome"]):
                continue
            else:
                k = {(36, 38): "funding->voting", (37, 49): "passed", (37, 41): "failed", (37, 40): "expired", (37, 48): "cancelled",
                     (37, 39): "missed-goal"}.get((r["status"], r["outcome"]), "other")
                if r["store"] in ("Finalized", "FinalizeFailed") and q["store"] != r["store"]:
                    k = "finalised(%s)" % ("yes" if r["outcome"] == 49 else "no")
                    if q["store"] == "Active":
                        SEEN["decided+finalised in one block"] = SEEN.get("decided+finalised in one block", 0) + 1
            SEEN[k] = SEEN.get(k, 0) + 1
        if e["optsChanged"]:
            SEEN["option record changed"] = SEEN.get("option record changed", 0) + 1
        for x in e["txs"]:
            if x["k"] == "WITHDRAW":
                SEEN["funds withdrawn"] = SEEN.get("funds withdrawn", 0) + 1


def run(ctx, replay):
    if not replay:
        d = ctx.tlc("Governance", "dev.cfg", name="governance-dev", allow_violation=True,
                    cfg_text=vlib.cfg_text("GSpec", dict(C, Deviations={"expireAnyTime"}), ["InvAppliedOnce"], PROPS))
        if d["ok"] or "PropExpireAfterDeadline is violated" not in d["text"]:
            raise vlib.ToolFailure("vacuity control failed: deviation expireAnyTime not caught by PropExpireAfterDeadline")
    subsys.run(ctx, "C14", replay, "Governance", MC, ["gov"], TRACE, corrupt,
               "seeded guided histories of two or three proposals (configuration update, code change, general) with create (also duplicate ids), contributions before, at and after the funding deadline that reach or miss the goal, votes by validators and by outsiders around the voting deadline, cancel by proposer and by others, withdraw-funds at every stage, user-sent expire and finalise transactions at every stage, staking changes in between; BeginBlock/EndBlock expiry and finalisation run by the real application; one evaluation = one block whose proposal, vote and fund records before and after are judged by TLC with the predicates of Governance.tla",
               n_blocks=(60, 20) if ctx.quick() else (700, 26), tally=tally)
    if not replay:
        need = ["funding->voting", "passed", "failed", "expired", "cancelled", "finalised(yes)", "finalised(no)", "option record changed", "funds withdrawn"]
        miss = [k for k in need if not SEEN.get(k)]
        if miss:
            raise vlib.ToolFailure("workload too poor: lifecycle steps never observed: %s (seen %s)" % (miss, SEEN))
        ctx.cov["lifecycle_steps_observed"] = dict(SEEN)
