"""C13 - block rewards stay within the pulled amount and the yearly schedule, withdrawals within the matured balance,
the amount independent of restarts (Rewards.tla, Rewards_Trace.tla)."""
import json
import subsys, vlib

C = dict(Vals={"v1", "v2"}, P1=2, P2=1, S1=9, S2=5, MaxH=6, Deviations=set())
INVS = ["InvEarned"]
PROPS = ["PropRestartIndependent", "PropBlockWithinPulled"]
MC = ("rewards", "RSpec", C, INVS, PROPS, None, None)
MCBIG = ("rewards-7", "RSpec", dict(C, MaxH=7, P1=1, P2=1, S1=7, S2=4), INVS, PROPS, None, None)
TRACE = dict(Vals={"v1"}, P1=1, P2=1, S1=1, S2=1, MaxH=0, Deviations=set())
DEVS = [("roundUp", "Action property PropBlockWithinPulled is violated"), ("speedUpToNow", "Action property PropRestartIndependent is violated")]
SEEN = {}


def corrupt(e):
    # a validator credited one unit more than its share
    if e["ev"] == "Block" and e["credited"] and not e["restart"]:
        v = sorted(e["credited"])[0]
        e["credited"][v] += 1
        return "CreditsAsComputed"
    return None


def tally(tf):
    for ln in open(tf):
        e = json.loads(ln)
        if e["ev"] != "Block":
            continue
        def inc(k):
            SEEN[k] = SEEN.get(k, 0) + 1
        if e["restart"]:
            inc("first block after a restart")
            if (e["h"] - 1) % e["cycle"] != 0:
                inc("restart inside a calculation cycle")
        if e["s"]["years"] and e["s"]["years"][1]["dist"] > 0:
            inc("blocks of the second reward year")
        if e["closes"] and e["times"][-1] > e["closes"][-1]:
            inc("blocks after the last year closed (burnout rate)")
        if e["noEvent"] and e["h"] > 1:
            inc("blocks without a reward (year exhausted before it closed)")
        if any(not v["signed"] for v in e["votes"]):
            inc("blocks with an absent signer")
        if e["deleg"]:
            inc("blocks with a non-empty delegation pool")
        for x in e["txs"]:
            inc("reward withdrawals accepted")


def run(ctx, replay):
    if not replay:
        for dev, want in DEVS:
            d = ctx.tlc("Rewards", "dev.cfg", name="rewards-dev-" + dev, allow_violation=True,
                        cfg_text=vlib.cfg_text("RSpec", dict(C, Deviations={dev}), INVS, PROPS))
            if d["ok"] or want not in d["text"]:
                raise vlib.ToolFailure("vacuity control failed: deviation %s not caught (%s)" % (dev, want))
    subsys.run(ctx, "C13", replay, "Rewards", MC, ["rewards"], TRACE, corrupt,
               "seeded histories of forty and more blocks over the whole reward schedule of the small genesis (a block is about a million seconds, a reward year about thirty blocks, calculation cycle and maturity interval three blocks): block-time jumps across cycle and year boundaries and close to the year close window, absent signers, stake changes (changing powers and validator sets), delegations (non-empty delegation pool), reward withdrawals by owners and by others, too large and adversarial amounts; the node is stopped and started again at two to four seeded heights of every history, at least once inside a calculation cycle; one evaluation = one block whose amount, shares, chunks, matured balances and year bookkeeping TLC computes with Rewards.tla and compares with the block_rewards event and the projected reward records",
               n_blocks=(30, 44) if ctx.quick() else (400, 60), extra_mc=[] if ctx.quick() else [MCBIG], tally=tally)
    if not replay:
        need = ["restart inside a calculation cycle", "blocks of the second reward year", "blocks after the last year closed (burnout rate)",
                "blocks with an absent signer", "blocks with a non-empty delegation pool", "reward withdrawals accepted"]
        miss = [k for k in need if not SEEN.get(k)]
        if miss:
            raise vlib.ToolFailure("workload too poor: never observed: %s (seen %s)" % (miss, SEEN))
        ctx.cov["steps_observed"] = dict(SEEN)
