"""C20 - domain names: exclusive ownership, owner-only changes, paid transfers, expiry arithmetic (Ons.tla, Ons_Trace.tla)."""
import json, os
import bidlib, subsys, vlib
from ledger import vdrive

C = dict(Accts={"a1", "a2"}, Names={"n.ol", "x.n.ol"}, SubNames={"x.n.ol"}, TheParent="n.ol", Amts={3, 4}, Base=2, Pb=1, MaxH=3, InitBal=7, Deviations=set())
CBIG = dict(C, Amts={3, 4, 6}, MaxH=4, InitBal=9)
INVS = ["InvSubFollowsParent", "InvNonNegative"]
PROPS = ["PropOwnerOnly", "PropPurchasePays", "PropExpiryPaid"]
MC = ("ons", "OSpec", C, INVS, PROPS, None, None)
MCBIG = ("ons-big", "OSpec", CBIG, INVS, PROPS, None, None)
TRACE = dict(Accts=set(), Names=set(), SubNames=set(), TheParent="", Amts=set(), Base=0, Pb=1, MaxH=0, InitBal=0, Deviations=set())
DEVS = [("updateByAnyone", "Action property PropOwnerOnly is violated"),
        ("purchaseKeepsSubs", "Invariant InvSubFollowsParent is violated"),
        # the pinned code's iteration over committed keys only: the model reproduces the recorded finding
        ("iterCommittedOnly", "Invariant InvSubFollowsParent is violated")]


def corrupt(e):
    # a name that changed hands although nobody bought it
    if e["ev"] == "Block" and not e["txs"]:
        for n, d in sorted(e["s"]["dom"].items()):
            d["owner"] = "a1" if d["owner"] != "a1" else "a2"
            return "Records.exact"
    return None


def classify(e, p):
    if p != "SubFollowsParent":
        return {}
    dom, par = e["s"]["dom"], e["par"]
    bad = [m for m, d in dom.items() if par.get(m) and par[m] in dom and (d["exp"] != dom[par[m]]["exp"] or d["owner"] != dom[par[m]]["owner"])]
    bad += [m for m in dom if par.get(m) and par[m] not in dom]
    for m in bad:
        created = [i for i, x in enumerate(e["txs"]) if x["k"] == "DOM_CREATE" and x["name"] == m]
        later = [i for i, x in enumerate(e["txs"]) if x["k"] in ("DOM_PURCHASE", "DOM_RENEW") and x["name"] == par.get(m) and created and i > created[0]]
        if not (created and later):
            return {"cause": "other"}
    return {"cause": "sub-name created earlier in the block in which its parent is bought or renewed"}


SEEN = {}


def tally(tf):
    import json
    prev = None
    for ln in open(tf):
        e = json.loads(ln)
        def inc(k):
            SEEN[k] = SEEN.get(k, 0) + 1
        if e["ev"] == "Block":
            if (e["base"], e["pb"]) != (1000, 10):
                inc("blocks under changed price options")
            pre = prev["s"]["dom"]
            for x in e["txs"]:
                d = pre.get(x["name"])
                if x["k"] == "DOM_PURCHASE" and d:
                    inc("purchase from a live owner" if d["sale"] and e["h"] - 1 <= d["exp"] else "purchase of an expired name")
                elif x["k"] == "DOM_CREATE":
                    inc("sub-name created" if e["par"].get(x["name"]) else "name created")
                elif x["k"].startswith("DOM_"):
                    inc(x["k"][4:].lower() + " accepted")
                if x.get("payer") and x["k"].startswith("DOM_") and x["name"] in pre and x["k"] in ("DOM_SEND",) and pre[x["name"]]["benef"] != x["by"]:
                    inc("payment to another account's name")
            gone = [n for n in pre if n not in e["s"]["dom"]]
            if gone:
                inc("blocks in which sub-names disappear")
        prev = e


def deals(ctx):
    """A registered name also changes hands through the bid application (external_apps/bid): Bid_Trace's Name.* part."""
    ctx.sany("Bid", "Bid_Trace")
    n, blocks = (40, 18) if ctx.quick() else (400, 24)
    tf = os.path.join(ctx.tmp, "Bid-names.ndjson")
    rep = vdrive(ctx, "subsys", "--family", "bid", "--seed", ctx.seed, "--n", n, "--blocks", blocks, "--out", tf, "Bid")
    bidlib.violations(ctx, tf, "bid", "Name.")
    lines = open(tf).read().splitlines()
    moved = 0
    target = None
    prev = None
    for i, ln in enumerate(lines):
        e = json.loads(ln)
        if e["ev"] == "Block" and prev is not None:
            ch = [m for m, d in e["s"]["dom"].items() if m in prev["s"]["dom"] and prev["s"]["dom"][m]["owner"] != d["owner"] and m not in e["skipa"]]
            moved += len(ch)
            if not ch and target is None and e["s"]["dom"] and not e["skipa"] and not any(x["k"].endswith("_DEC") for x in e["txs"]):
                target = i
        prev = e
    if moved < 3 or target is None:
        raise vlib.ToolFailure("workload too poor: %d names changed hands through a deal" % moved)
    # binding self-test: a name that changed hands although no deal was accepted in that block
    e = json.loads(lines[target])
    m = sorted(e["s"]["dom"])[0]
    e["s"]["dom"][m]["owner"] = "a1" if e["s"]["dom"][m]["owner"] != "a1" else "a2"
    bad = os.path.join(ctx.tmp, "bid-names-corrupt.ndjson")
    open(bad, "w").write("\n".join(lines[:target] + [json.dumps(e)] + lines[target + 1:]) + "\n")
    v = subsys.validate(ctx, "Bid", bidlib.BID_TRACE, bad, "bid-names-selftest")
    if not any(p == "Name.ChangesHandsOnlyByAcceptedDeal" and line == target + 1 for (p, line, t, h) in v):
        raise vlib.ToolFailure("self-test: a name changing hands without a deal is not reported (got %s)" % v[:5])
    return dict(histories=rep["scenarios"], blocks=rep["blocks"], names_changing_hands_through_a_deal=moved,
                rule="family bid (guided histories of the bid application): a registered name that no registry request touched in a block changes its owner only through an accepted deal of a conversation about it - to that conversation's bidder, from the owner it names, by the owner's own decision or by the bidder accepting and paying the owner's counter offer (Bid_Trace: Name.ChangesHandsOnlyByAcceptedDeal)")


def run(ctx, replay):
    if replay and json.load(open(replay)).get("spec") == "Bid":
        bidlib.replay(ctx, replay, "Name.")
        return
    dealcov = None
    if not replay:
        ctx.build("vworker", "vdrive")
        dealcov = deals(ctx)
        for dev, want in DEVS:
            d = ctx.tlc("Ons", "dev.cfg", name="ons-dev-" + dev, allow_violation=True,
                        cfg_text=vlib.cfg_text("OSpec", dict(C, Deviations={dev}), INVS, PROPS))
            if d["ok"] or want not in d["text"]:
                raise vlib.ToolFailure("vacuity control failed: deviation %s not caught (%s)" % (dev, want))
    subsys.run(ctx, "C20", replay, "Ons", MC, ["ons", "onsgov", "onsmix"], TRACE, corrupt,
               "seeded guided histories over three first-level names (one whose text ends with another's), their sub-names and a sub-sub-name: create (also duplicates, too cheap, sub-names by strangers), update, sale and cancel, purchases with enough and too little, although not on sale, around and after the expiry height, renew, send-to-name, delete one/all sub-names - each owner-only request also by strangers, a quarter delivered without the mempool check; family onsgov changes the price options by a passed configuration proposal in mid-history; one evaluation = one block re-computed by TLC (guards and effects of Ons.tla on all records and all OLT balances, fees included) and compared exactly",
               n_blocks=(40, 20) if ctx.quick() else (500, 26), extra_mc=[] if ctx.quick() else [MCBIG], classify=classify, tally=tally)
    if not replay:
        need = ["blocks under changed price options", "purchase from a live owner", "purchase of an expired name", "sub-name created", "renew accepted",
                "sell accepted", "update accepted", "send accepted", "delete_sub accepted", "blocks in which sub-names disappear"]
        miss = [k for k in need if not SEEN.get(k)]
        if miss:
            raise vlib.ToolFailure("workload too poor: never observed: %s (seen %s)" % (miss, SEEN))
        ctx.cov["registry_steps_observed"] = dict(SEEN)
    if dealcov:
        ctx.cov["names_through_the_bid_application"] = dealcov
        ctx.notes.append("binding self-test (Bid_Trace): a name that changed hands in a block without an accepted deal is reported as Name.ChangesHandsOnlyByAcceptedDeal")
