"""C16 - the EVM state adapter answers like go-ethereum's reference state (StateDB.tla, StateDB_Trace.tla)."""
import json, os, re
import vlib

C = dict(Addrs={"A", "B"}, Slots={"k"}, Vals={"0", "x"}, Nums={0, 1}, MaxOps=4, Deviations=set())
INVS = ["InvJournalRefines", "InvBalancesNonNegative"]
TRACE = dict(Addrs=set(), Slots=set(), Vals=set(), Nums=set(), MaxOps=0, Deviations=set())
DEVS = [("noUndoForNonce", "Invariant InvJournalRefines is violated"), ("revertOldestFirst", "Invariant InvJournalRefines is violated")]
KNOWN = {"deviation": "storage survives removal and re-creation of an account"}
RE = re.compile(r'<<\s*"PROPERTY-VIOLATED",\s*"([\w.]+)",\s*"line",\s*(\d+),\s*"trace",\s*(\d+),\s*"h",\s*0\s*>>')


def validate(ctx, tf, name):
    tr = ctx.tlc("StateDB_Trace", "trace.cfg", workers=1, name=name, files=[(tf, "trace.ndjson")],
                 cfg_text=vlib.cfg_text("TraceSpec", TRACE, postcondition="TraceAccepted"), allow_violation=True)
    if not tr["ok"]:
        raise vlib.ToolFailure("StateDB_Trace did not consume the trace %s:\n%s" % (name, tr["text"][-2500:]))
    return [(m.group(1), int(m.group(2)), int(m.group(3))) for m in RE.finditer(tr["text"])]


def record(ctx, mode, seed, first, n, length, out):
    argv = [os.path.join(ctx.bin, "vevm"), mode, "--seed", str(seed), "--from", str(first), "--n", str(n), "--out", out]
    if mode == "ops":
        argv += ["--len", str(length)]
    ctx.run(argv)
    return json.load(open(out + ".report.json"))


def judge(ctx, mode, seed, first, length, tf, viol, stats):
    """per trace: reference lines must conform (else the specification or the harness is wrong: no verdict); the adapter is
    judged under the recorded deviation; a mismatch that only the deviation explains is the known finding"""
    lines = None
    per = {}
    for (p, line, t) in viol:
        per.setdefault(t, []).append((line, p))
    for t, vs in sorted(per.items()):
        vs.sort()
        ref = [v for v in vs if v[1].endswith(".reference")]
        if ref:
            raise vlib.ToolFailure("the reference implementation itself is not a behaviour of StateDB.tla (%s line %d of %s, %s run %d): specification or recorder wrong" % (ref[0][1], ref[0][0], tf, mode, first + (t - 1) // 2))
        if any(v[1].startswith("LegalUse") for v in vs):
            raise vlib.ToolFailure("generated sequence makes an illegal call (%s)" % vs[0][1])
        idx = first + (t - 1) // 2
        # an execution result that differs after a call the recorded deviation explains is its consequence (the interpreter
        # was given the surviving storage value); before such a call it is a difference of its own
        soft = [v[0] for v in vs if not v[1].startswith("WithDeviation.") and not v[1].startswith("ExecutionResult")]
        hard = [v for v in vs if v[1].startswith("WithDeviation.") or (v[1].startswith("ExecutionResult") and not (soft and soft[0] < v[0]))]
        if lines is None:
            lines = open(tf).read().splitlines()
        if hard:
            line, p = hard[0]
            ctx.violation({"op": p.replace("WithDeviation.", "")}, {"engine": "vevm", "mode": mode, "seed": seed, "index": idx, "len": length, "line": json.loads(lines[line - 1])},
                          "%s: %s run %d (seed %d): the adapter answers %r at call %d of its trace" % (p.replace("WithDeviation.", ""), mode, idx, seed, json.loads(lines[line - 1])["r"], line))
        else:
            line, p = vs[0]
            stats["explained_by_known_deviation"] = stats.get("explained_by_known_deviation", 0) + 1
            ctx.violation(dict(KNOWN), {"engine": "vevm", "mode": mode, "seed": seed, "index": idx, "len": length, "line": json.loads(lines[line - 1])},
                          "%s: %s run %d (seed %d): stored value visible after the account was removed or created anew" % (p, mode, idx, seed))


def run(ctx, replay):
    ctx.build("vevm")
    ctx.sany("StateDB", "StateDB_Trace")
    stats = {}
    if replay:
        rp = json.load(open(replay))
        tf = os.path.join(ctx.tmp, "replay.ndjson")
        record(ctx, rp["mode"], rp["seed"], rp["index"], 1, rp.get("len", 50), tf)
        judge(ctx, rp["mode"], rp["seed"], rp["index"], rp.get("len", 50), tf, validate(ctx, tf, "replay"), stats)
        ctx.cov.update(states=1, transitions=1, traces_validated_against_impl=1, samples=[replay])
        return
    quick = ctx.quick()
    states = trans = 0
    for dev, want in DEVS:
        d = ctx.tlc("StateDB", "dev.cfg", name="statedb-dev-" + dev, allow_violation=True,
                    cfg_text=vlib.cfg_text("JSpec", dict(C, Deviations={dev}), INVS, view="JView"))
        if d["ok"] or want not in d["text"]:
            raise vlib.ToolFailure("vacuity control failed: deviation %s not caught" % dev)
    r = ctx.tlc("StateDB", "mc.cfg", name="mc-statedb", cfg_text=vlib.cfg_text("JSpec", dict(C, MaxOps=4 if quick else 5), INVS, view="JView"))
    states += r["distinct"]
    trans += r["generated"]
    seed = int(ctx.seed)
    plan = [("ops", 60, 50), ("evm", 80, 0)] if quick else [("ops", 600, 60), ("evm", 800, 0)]
    calls = {}
    traces = lines_total = 0
    first_file = None
    for mode, total, length in plan:
        chunk = 100
        for first in range(0, total, chunk):
            n = min(chunk, total - first)
            tf = os.path.join(ctx.tmp, "%s-%d.ndjson" % (mode, first))
            rep = record(ctx, mode, seed, first, n, length, tf)
            first_file = first_file or tf
            viol = validate(ctx, tf, "trace-%s-%d" % (mode, first))
            judge(ctx, mode, seed, first, length, tf, viol, stats)
            traces += rep["traces"]
            lines_total += rep["lines"]
            for k, v in rep["calls"].items():
                calls["%s:%s" % (mode, k)] = calls.get("%s:%s" % (mode, k), 0) + v
            ctx.log("%s %d..%d: %d traces, %d calls, %d violation lines" % (mode, first, first + n, rep["traces"], rep["lines"], len(viol)))
            if not quick and tf != first_file:
                os.remove(tf)
    for need in ["ops:RevertToSnapshot", "ops:Suicide", "ops:CreateAccount", "ops:Finalise", "ops:EndBlock", "evm:RevertToSnapshot", "evm:Suicide", "evm:CreateAccount", "evm:AddLog", "evm:AddRefund", "evm:Result"]:
        if not calls.get(need):
            raise vlib.ToolFailure("workload too poor: no %s call recorded" % need)
    # binding self-test: one corrupted answer of the adapter must be reported at that call
    src = open(first_file).read().splitlines()
    for i, ln in enumerate(src):
        e = json.loads(ln)
        if e["impl"] == "adapter" and e["op"] == "GetBalance" and e["r"] not in ("0",):
            e["r"] = str(int(e["r"]) + 1)
            bad = os.path.join(ctx.tmp, "corrupt.ndjson")
            open(bad, "w").write("\n".join(src[:i] + [json.dumps(e)] + src[i + 1:]) + "\n")
            v = validate(ctx, bad, "selftest")
            if not any(p == "WithDeviation.GetBalance.adapter" and line == i + 1 for (p, line, t) in v):
                raise vlib.ToolFailure("self-test: corrupted answer not reported")
            ctx.notes.append("binding self-test: a corrupted GetBalance answer of the adapter is reported at that call")
            break
    else:
        raise vlib.ToolFailure("self-test: no line suitable for corruption")
    head = []
    for ln in src:
        e = json.loads(ln)
        if e.get("impl") == "adapter":
            head.append({k: e[k] for k in ("op", "a", "k", "v", "r") if k in e})
        if len(head) >= 12:
            break
    ctx.cov.update(states=states, transitions=trans, traces_validated_against_impl=traces, evaluations=lines_total, calls_by_mode=calls,
                   distinct_nontrivial=traces,
                   samples=[{"mode": "ops", "seed": seed, "index": 0, "first_calls_and_answers_of_the_adapter": head}] + [{"mode": m, "seed": seed, "index": 0, "replay": "vevm %s --seed %d --from 0 --n 1" % (m, seed)} for m, _, _ in plan],
                   rule="seeded sequences of state-interface calls an interpreter can make (mutations of existing accounts, value to any address, creation of any address, nested snapshots and reverts in any order, finalisation between transactions, block commits) and seeded bytecode programs (SSTORE/SLOAD, BALANCE, EXTCODESIZE/HASH, LOG, CALL with value, CREATE with failing and succeeding init code, REVERT, SELFDESTRUCT, gas exhaustion) run by go-ethereum's interpreter; each is applied to go-ethereum's in-memory state and to the adapter over a chain state with transaction sessions and block commits; every call and answer of both is one trace line judged by TLC against StateDB.tla, execution results of the adapter are compared with the reference run",
                   **stats)
    ctx.assumptions += ["the recorder (harness/cmd/vevm) is the refinement mapping and is trusted; exercised by the corruption self-test",
                        "go-ethereum v1.10.8's core/state is the reference: a reference trace that does not conform to StateDB.tla is a tool failure, never a verdict",
                        "call sequences are restricted to what the interpreter can issue (see rule); amounts are below 2^30"]
