"""C10 - validator-set updates (Validators.tla, Validators_Trace.tla; see lib/subsys.py)."""
import subsys

MC = ("validators", "VSpec", dict(Vals={"v1", "v2", "v3"}, Powers={0, 3, 4}, TopN=2, MinSelf=3, MaxH=9, Quiet=2),
      ["InvJustified", "InvConverges"], [], None, None)
TRACE = dict(Vals=set(), Powers=set(), TopN=0, MinSelf=0, MaxH=0, Quiet=0)


def corrupt(e):
    if e["ev"] == "Block" and e["upd"] and any(p > 0 for p in e["upd"].values()):
        k = sorted(v for v, p in e["upd"].items() if p > 0)[0]
        e["upd"][k] += 1
        return "PositiveUpdatesJustified.powerIsStake"
    return None


def classify(e, part):
    """the degenerate history in which no candidate is eligible any more (everybody unstaked):
    the update list then removes the last validators"""
    bad = set(e["bad"])
    eligible = [v for v, p in e["rec"].items() if p >= e["min"] and v not in bad]
    return {"eligible": "none" if not eligible else "some"}


def run(ctx, replay):
    subsys.run(ctx, "C10", replay, "Validators", MC, ["valset", "stake", "base", "exodus", "allegset"], TRACE, corrupt,
               "seeded histories of stake/unstake/withdraw by three candidate validators around top count 2 and minimum self delegation 3, absent last-commit signers (missed-vote freezes), with a quiet tail of 8-10 blocks (family valset); every update list is applied to a real tendermint ValidatorSet (UpdateWithChangeSet) and TLC evaluates UpdatesWellFormed, PositiveUpdatesJustified and Converges on every block; family exodus lets every validator unstake everything (known finding)", classify=classify)
