"""C08 - crash-restart equivalence (see lib/replica.py)."""
import replica


def run(ctx, replay):
    # family rewards: histories over the whole reward schedule (forty and more blocks), where what a node keeps in memory
    # between blocks (the reward calculator's cached amount) matters most
    # family allegset: guided histories with guilty verdicts (a penalty is decided in one block and carried out in later ones:
    # whatever is remembered about it between blocks has to survive a restart)
    replica.run(ctx, "C08", replay, families=replica.FAMILIES + ["rewards", "allegset"])
    ctx.cov.setdefault("rule", RULE)


RULE = "per history three twins that die at 1-3 call boundaries (after BeginBlock, after the k-th DeliverTx, after EndBlock, after Commit) and are restarted in a new process from the same data directory; Info must report the last completed commit and all later results must equal the reference's; twelve families, among them long histories over the whole reward schedule and guided histories with allegation verdicts"
