"""C08 - crash-restart equivalence (see lib/replica.py)."""
import replica


def run(ctx, replay):
    # family rewards: histories over the whole reward schedule (forty and more blocks), where what a node keeps in memory
    # between blocks (the reward calculator's cached amount) matters most
    # family allegset: guided histories with guilty verdicts (a penalty is decided in one block and carried out in later ones:
    # whatever is remembered about it between blocks has to survive a restart)
    # family govfee: a passed proposal changes the minimal fee and transfers at the old and the new price follow: option
    # copies kept in memory (and anything computed from them) must equal what a restarted node reads from the store
    # family govstake: the same with a staking option, on the genesis whose fork rewrites the staking options (the record
    # is written under a height and found through a last-update height: a restarted node has to reproduce both)
    replica.run(ctx, "C08", replay, families=replica.FAMILIES + ["rewards", "allegset", "govfee", "govstake"])
    ctx.cov.setdefault("rule", RULE)


RULE = "per history three twins that die at 1-3 call boundaries (after BeginBlock, after the k-th DeliverTx, after EndBlock, after Commit) and are restarted in a new process from the same data directory; Info must report the last completed commit and all later results must equal the reference's; fifteen families, among them long histories over the whole reward schedule, guided histories with allegation verdicts, and histories in which a passed proposal changes the minimal fee"
