--------------------------------- MODULE Bid ---------------------------------
(***************************************************************************)
(* The bid application (external_apps/bid): offers for an asset - a name   *)
(* of the registry or an "example" asset - negotiated in a conversation    *)
(* between one bidder and the asset's owner.  Part of C02: the amount of   *)
(* an open bid is escrow, and every way a conversation can end must give   *)
(* it to exactly one party exactly once.                                   *)
(*                                                                         *)
(* Transcribes bid_action/{create_bid, counter_offer, bidder_decision,     *)
(* owner_decision, cancel_bid, expire_bid, common}.go, bid_data/           *)
(* bid_asset_ons.go and bid_block_func/bid_block_func.go.                  *)
(*                                                                         *)
(* s.conv[id]  = [owner, asset, atype, bidder, dl, st]                     *)
(*               st: "active", "succeed", "cancelled", "expired",          *)
(*               "rejected" (the five record stores)                       *)
(* s.offer[id] = [type, amt] the conversation's active offer: "bid"        *)
(*               (amount debited from the bidder: escrow) or "counter"     *)
(*               (the owner's asking price: nothing is held)               *)
(* s.bal       = OLT balances                                              *)
(* s.dom[n]    = [owner, sale, exp, upd] registry records of the assets    *)
(* e           = [h, now, ver, committed]: height, block time, last        *)
(*               committed version, conversations active at block start    *)
(*                                                                         *)
(* What the code does and a reader may not expect, modelled as it is:      *)
(*  - the expiry request is an ordinary transaction: anybody may send it,  *)
(*    at any time, and it closes the conversation (bid refunded) whether   *)
(*    or not the deadline has passed (CanExpire has no deadline conjunct); *)
(*  - "is there an active conversation for this owner, asset and bidder"   *)
(*    is answered from committed records only (e.committed): one opened   *)
(*    earlier in the same block is not seen.                               *)
(***************************************************************************)
EXTENDS Integers, Sequences, FiniteSets, TLC

Get(f, k) == IF k \in DOMAIN f THEN f[k] ELSE 0
Put(f, k, x) == [y \in DOMAIN f \cup {k} |-> IF y = k THEN x ELSE f[y]]
Add(f, k, x) == Put(f, k, Get(f, k) + x)
Del(f, k) == [y \in DOMAIN f \ {k} |-> f[y]]

Terminal == {"succeed", "cancelled", "expired", "rejected"}
IsActive(s, id) == id \in DOMAIN s.conv /\ s.conv[id].st = "active"
Late(c, e) == c.dl < e.now                      \* deadLine.Before(now)
HasOffer(s, id, ty) == id \in DOMAIN s.offer /\ (ty = "any" \/ s.offer[id].type = ty)

(* DomainAsset.ValidateAsset; every asset of the example type is available to anybody *)
AssetOk(s, e, atype, asset, owner) ==
  \/ atype = "example"
  \/ /\ atype = "ons" /\ asset \in DOMAIN s.dom
     /\ ~s.dom[asset].sale /\ s.dom[asset].owner = owner /\ e.ver < s.dom[asset].exp
(* DomainAsset.ExchangeAsset: the record must not have been changed at this height *)
CanExchange(s, e, c) == c.atype = "ons" => (c.asset \in DOMAIN s.dom /\ e.h >= s.dom[c.asset].upd + 1)
DoExchange(s, e, c) ==
  IF c.atype # "ons" THEN s
  ELSE [s EXCEPT !.dom[c.asset] = [owner |-> c.bidder, sale |-> FALSE, upd |-> e.ver,
                                   exp |-> IF @.exp > e.ver THEN @.exp ELSE e.ver]]

(* common.DeactivateOffer(deal = FALSE): only a bid offer holds money *)
Refund(s, id) ==
  LET o == s.offer[id] IN
  [s EXCEPT !.bal = IF o.type = "bid" THEN Add(@, s.conv[id].bidder, o.amt) ELSE @, !.offer = Del(@, id)]
Close(s, id, st) == [s EXCEPT !.conv[id].st = st]

(* ---- BID_CREATE: x = [by, owner, asset, atype, amt, dl, id, new] ---- *)
SameTuple(c, x) == c.owner = x.owner /\ c.asset = x.asset /\ c.atype = x.atype /\ c.bidder = x.by
CanCreate(s, e, x) ==
  /\ x.amt >= 0
  /\ IF x.new
     THEN /\ AssetOk(s, e, x.atype, x.asset, x.owner)
          /\ ~(x.dl < e.now)
          /\ ~\E id \in e.committed : IsActive(s, id) /\ SameTuple(s.conv[id], x)   \* committed and not closed since
          /\ HasOffer(s, x.id, "any") => s.offer[x.id].type = "counter"      \* (an identifier used twice in one block)
     ELSE /\ IsActive(s, x.id) /\ s.conv[x.id].bidder = x.by /\ ~Late(s.conv[x.id], e)
          /\ AssetOk(s, e, s.conv[x.id].atype, s.conv[x.id].asset, s.conv[x.id].owner)
          /\ HasOffer(s, x.id, "counter")
  /\ HasOffer(s, x.id, "counter") => x.amt < s.offer[x.id].amt
  /\ Get(s.bal, x.by) >= x.amt
DoCreate(s, e, x) ==
  LET s1 == IF x.new THEN [s EXCEPT !.conv = Put(@, x.id, [owner |-> x.owner, asset |-> x.asset, atype |-> x.atype,
                                                       bidder |-> x.by, dl |-> x.dl, st |-> "active"])]
            ELSE s
  IN [s1 EXCEPT !.bal = Add(@, x.by, -x.amt), !.offer = Put(@, x.id, [type |-> "bid", amt |-> x.amt])]

(* ---- BID_CONTER_OFFER: x = [by, id, amt] ---- *)
CanCounter(s, e, x) ==
  /\ IsActive(s, x.id) /\ s.conv[x.id].owner = x.by /\ ~Late(s.conv[x.id], e)
  /\ AssetOk(s, e, s.conv[x.id].atype, s.conv[x.id].asset, s.conv[x.id].owner)
  /\ HasOffer(s, x.id, "bid") /\ x.amt > s.offer[x.id].amt
DoCounter(s, e, x) == [Refund(s, x.id) EXCEPT !.offer = Put(@, x.id, [type |-> "counter", amt |-> x.amt])]

(* ---- BID_BIDDER_DECISION on a counter offer: x = [by, id, dec] (1 = accept, 2 = reject) ---- *)
CanBidderDec(s, e, x) ==
  /\ IsActive(s, x.id) /\ ~Late(s.conv[x.id], e)
  /\ AssetOk(s, e, s.conv[x.id].atype, s.conv[x.id].asset, s.conv[x.id].owner)
  /\ s.conv[x.id].bidder = x.by /\ HasOffer(s, x.id, "counter") /\ x.dec \in {1, 2}
  /\ x.dec = 1 => Get(s.bal, x.by) >= s.offer[x.id].amt /\ CanExchange(s, e, s.conv[x.id])
DoBidderDec(s, e, x) ==
  LET c == s.conv[x.id]
      a == s.offer[x.id].amt IN
  IF x.dec = 2 THEN Close(Refund(s, x.id), x.id, "rejected")
  ELSE DoExchange(Close([s EXCEPT !.bal = Add(Add(@, c.bidder, -a), c.owner, a), !.offer = Del(@, x.id)], x.id, "succeed"), e, c)

(* ---- BID_OWNER_DECISION on a bid offer ---- *)
CanOwnerDec(s, e, x) ==
  /\ IsActive(s, x.id) /\ ~Late(s.conv[x.id], e)
  /\ AssetOk(s, e, s.conv[x.id].atype, s.conv[x.id].asset, s.conv[x.id].owner)
  /\ s.conv[x.id].owner = x.by /\ HasOffer(s, x.id, "bid") /\ x.dec \in {1, 2}
  /\ x.dec = 1 => CanExchange(s, e, s.conv[x.id])
DoOwnerDec(s, e, x) ==
  LET c == s.conv[x.id]
      a == s.offer[x.id].amt IN
  IF x.dec = 2 THEN Close(Refund(s, x.id), x.id, "rejected")
  ELSE DoExchange(Close([s EXCEPT !.bal = Add(@, c.owner, a), !.offer = Del(@, x.id)], x.id, "succeed"), e, c)

(* ---- BID_CANCEL by the bidder, BID_EXPIRE by anybody ---- *)
CanCancel(s, e, x) == IsActive(s, x.id) /\ s.conv[x.id].bidder = x.by /\ ~Late(s.conv[x.id], e) /\ HasOffer(s, x.id, "any")
DoCancel(s, e, x) == Close(Refund(s, x.id), x.id, "cancelled")
CanExpire(s, e, x) == IsActive(s, x.id) /\ HasOffer(s, x.id, "any")
DoExpire(s, e, x) == Close(Refund(s, x.id), x.id, "expired")

(* ---- block end: conversations that were active and committed when the block began and whose ---- *)
(* ---- deadline lies before the block's time are expired                                      ---- *)
RECURSIVE ExpireAll(_, _, _)
ExpireAll(s, e, ids) ==
  IF ids = {} THEN s
  ELSE LET id == CHOOSE i \in ids : TRUE
           due == id \in DOMAIN s.conv /\ Late(s.conv[id], e) /\ CanExpire(s, e, [id |-> id])
       IN ExpireAll(IF due THEN DoExpire(s, e, [id |-> id]) ELSE s, e, ids \ {id})
DoBlockEnd(s, e) == ExpireAll(s, e, e.committed)

(* ---- what the property is about ---- *)
RECURSIVE SumOver(_, _)
SumOver(f, ks) == IF ks = {} THEN 0 ELSE LET k == CHOOSE x \in ks : TRUE IN f[k] + SumOver(f, ks \ {k})
Escrow(s) == SumOver([id \in DOMAIN s.offer |-> IF s.offer[id].type = "bid" THEN s.offer[id].amt ELSE 0], DOMAIN s.offer)
Supply(s) == SumOver(s.bal, DOMAIN s.bal) + Escrow(s)
NonNegative(s) == (\A a \in DOMAIN s.bal : s.bal[a] >= 0) /\ (\A id \in DOMAIN s.offer : s.offer[id].amt >= 0)
(* only an active conversation has an active offer, and every active one has one *)
OfferIffActive(s) == \A id \in DOMAIN s.conv \cup DOMAIN s.offer : IsActive(s, id) <=> id \in DOMAIN s.offer

(***************************************************************************)
(* Bounded model: two accounts, a registered name owned by a1 and an       *)
(* example asset, amounts 1..3, block times 1..MaxT, deadlines in between. *)
(***************************************************************************)
CONSTANTS Accts, Amts, MaxT, InitBal, Deviations

VARIABLES st, hh, begun
bvars == <<st, hh, begun>>

Assets == {[n |-> "n.ol", t |-> "ons"], [n |-> "ex", t |-> "example"]}
Ids == {<<o, a.n, b>> : o \in Accts, a \in Assets, b \in Accts}      \* one conversation per tuple (the height is left out)
Env == [h |-> hh, now |-> hh, ver |-> hh - 1, committed |-> begun]
First == CHOOSE a \in Accts : TRUE

BInit == /\ st = [conv |-> <<>>, offer |-> <<>>, bal |-> [a \in Accts |-> InitBal],
                  dom |-> [n \in {"n.ol"} |-> [owner |-> First, sale |-> FALSE, exp |-> MaxT + 2, upd |-> 0]]]
         /\ hh = 1 /\ begun = {}

(* deviations: what the invariants must catch *)
DevRefund(s, id) ==      \* "refundCounter": retiring a counter offer pays its amount to the bidder
  IF "refundCounter" \in Deviations /\ s.offer[id].type = "counter" THEN [s EXCEPT !.bal = Add(@, s.conv[id].bidder, s.offer[id].amt)] ELSE s

Create(by, o, a, amt, dl) ==
  LET id == <<o, a.n, by>>
      fresh == id \notin DOMAIN st.conv
      x == [by |-> by, owner |-> o, asset |-> a.n, atype |-> a.t, amt |-> amt, dl |-> dl, id |-> id, new |-> fresh]
  IN /\ by # o /\ (fresh \/ IsActive(st, id))
     /\ IF "negativeBid" \in Deviations THEN CanCreate(st, Env, [x EXCEPT !.amt = 1]) /\ Get(st.bal, by) >= amt ELSE CanCreate(st, Env, x)
     /\ st' = DoCreate(st, Env, x) /\ UNCHANGED <<hh, begun>>
Counter(by, id, amt) == LET x == [by |-> by, id |-> id, amt |-> amt] IN
  CanCounter(st, Env, x) /\ st' = DoCounter(st, Env, x) /\ UNCHANGED <<hh, begun>>
BidderDec(by, id, d) == LET x == [by |-> by, id |-> id, dec |-> d] IN
  CanBidderDec(st, Env, x) /\ st' = DoBidderDec(DevRefund(st, id), Env, x) /\ UNCHANGED <<hh, begun>>
OwnerDec(by, id, d) == LET x == [by |-> by, id |-> id, dec |-> d] IN
  CanOwnerDec(st, Env, x) /\ st' = DoOwnerDec(st, Env, x) /\ UNCHANGED <<hh, begun>>
Cancel(by, id) == LET x == [by |-> by, id |-> id] IN
  CanCancel(st, Env, x) /\ st' = DoCancel(DevRefund(st, id), Env, x) /\ UNCHANGED <<hh, begun>>
Expire(id) == CanExpire(st, Env, [id |-> id]) /\ st' = DoExpire(DevRefund(st, id), Env, [id |-> id]) /\ UNCHANGED <<hh, begun>>
(* the block ends (deadlines are enforced) and the next one begins *)
NextBlock == /\ hh < MaxT
             /\ LET s2 == DoBlockEnd(st, Env) IN
                /\ st' = s2 /\ hh' = hh + 1
                /\ begun' = {id \in DOMAIN s2.conv : s2.conv[id].st = "active"}

BNext == \/ \E by, o \in Accts, a \in Assets, amt \in Amts \cup (IF "negativeBid" \in Deviations THEN {-1} ELSE {}), dl \in 1..MaxT : Create(by, o, a, amt, dl)
         \/ \E by \in Accts, id \in Ids, amt \in Amts : Counter(by, id, amt)
         \/ \E by \in Accts, id \in Ids, d \in {1, 2} : BidderDec(by, id, d) \/ OwnerDec(by, id, d)
         \/ \E by \in Accts, id \in Ids : Cancel(by, id)
         \/ \E id \in Ids : Expire(id)
         \/ NextBlock
BSpec == BInit /\ [][BNext]_bvars

InvConserved == Supply(st) = InitBal * Cardinality(Accts)
InvNonNegative == NonNegative(st)
InvOfferIffActive == OfferIffActive(st)
(* a conversation that is over stays as it ended *)
PropForwardOnly == [][\A id \in DOMAIN st.conv : st.conv[id].st \in Terminal => (id \in DOMAIN st'.conv /\ st'.conv[id] = st.conv[id])]_bvars
(* the name changes hands only in the step in which a conversation about it succeeds, to that conversation's bidder, *)
(* and in that step its previous owner's balance does not fall                                                      *)
PropAssetWithPayment ==
  [][st'.dom["n.ol"].owner # st.dom["n.ol"].owner =>
       \E id \in DOMAIN st.conv : /\ IsActive(st, id) /\ st'.conv[id].st = "succeed" /\ st.conv[id].asset = "n.ol"
                                  /\ st'.dom["n.ol"].owner = st.conv[id].bidder /\ st.conv[id].owner = st.dom["n.ol"].owner
                                  /\ Get(st'.bal, st.conv[id].owner) >= Get(st.bal, st.conv[id].owner) + st.offer[id].amt]_bvars
(* past its deadline no conversation survives the end of a block *)
PropDeadlineEnforced == [][hh' = hh + 1 => \A id \in begun : IsActive(st', id) => ~(st'.conv[id].dl < hh)]_bvars
=============================================================================
