------------------------------- MODULE TxAuth -------------------------------
(***************************************************************************)
(* Transaction authentication (property C04).                              *)
(*                                                                         *)
(* Transcribes action/base.go ValidateBasic (as called by every handler's   *)
(* Validate, from CheckTx and - since the fix recorded in                   *)
(* known_findings.json - from DeliverTx): the number of signatures equals   *)
(* the number of required signers; for every position the address of the    *)
(* signature's public key equals the required signer; the signature         *)
(* verifies under that key over the re-serialised raw transaction (type,    *)
(* payload, fee, memo).                                                      *)
(*                                                                         *)
(* A transaction is abstracted to what the rule looks at:                   *)
(*   req     the required signers (a sequence of addresses) - a function of *)
(*           the payload                                                    *)
(*   content what the signatures were made over vs. what is submitted       *)
(*   sigs    sequence of [key, alg, over, by]: the public key attached, the *)
(*           algorithm label, the content that was signed and the key that  *)
(*           signed it                                                      *)
(* Mutations are the single-field changes the property quantifies over.     *)
(* TLC enumerates kind x mutation x position and checks that the admission  *)
(* rule admits exactly the authentic transactions.                          *)
(***************************************************************************)
EXTENDS Integers, Sequences, FiniteSets, SequencesExt, TLC

CONSTANTS Keys,        \* key identities; AddrOf is the identity on them
          Arity        \* numbers of required signers that occur (1 and 2)

Muts == {"none", "payload", "feePrice", "feeGas", "feeCurrency", "memo", "type", "substKey", "flipSig",
         "dropSigner", "addSigner", "swapSigners", "changeAlg", "resignOtherKey", "unsigned", "dupCoSigner",
         "algBtcec", "algEthsecp"}

VARIABLES tx, mut, pos
avars == <<tx, mut, pos>>

SetToSeqAny(S) == SetToSeq(S)
Other == CHOOSE k \in Keys : TRUE     \* a key that is not a required signer (required signers are drawn from Keys \ {Other})

Sig(k, c) == [key |-> k, alg |-> "ed25519", over |-> c, by |-> k]
Honest(req) == [req |-> req, content |-> "c", sigs |-> [i \in 1..Len(req) |-> Sig(req[i], "c")]]

(* a signature verifies iff it was made by the attached key, over the submitted content, *)
(* and the algorithm label is the key's                                                  *)
Verifies(s, content) == s.by = s.key /\ s.over = content /\ s.alg = "ed25519"

Admit(t) == /\ Len(t.sigs) = Len(t.req)
            /\ \A i \in 1..Len(t.req) : t.sigs[i].key = t.req[i] /\ Verifies(t.sigs[i], t.content)

(* the property's notion: for each address whose authority the payload requires, a signature *)
(* that verifies under that address's key over exactly the submitted content                 *)
Authentic(t) == /\ Len(t.sigs) = Len(t.req)
                /\ \A i \in 1..Len(t.req) : t.sigs[i].by = t.req[i] /\ t.sigs[i].key = t.req[i]
                                            /\ t.sigs[i].over = t.content /\ t.sigs[i].alg = "ed25519"

Apply(t, m, p) ==
  CASE m = "none" -> t
    [] m \in {"payload", "feePrice", "feeGas", "feeCurrency", "memo", "type"} -> [t EXCEPT !.content = "c-" \o m]
    [] m = "substKey" -> [t EXCEPT !.sigs[p].key = Other]
    [] m = "flipSig" -> [t EXCEPT !.sigs[p].over = "garbage"]
    [] m = "dropSigner" -> [t EXCEPT !.sigs = SubSeq(@, 1, Len(@) - 1)]
    [] m = "addSigner" -> [t EXCEPT !.sigs = Append(@, Sig(Other, t.content))]
    [] m = "swapSigners" -> IF Len(t.sigs) < 2 THEN t ELSE [t EXCEPT !.sigs = <<@[2], @[1]>>]
    [] m = "changeAlg" -> [t EXCEPT !.sigs[p].alg = "secp256k1"]
    [] m = "algBtcec" -> [t EXCEPT !.sigs[p].alg = "btcecsecp"]          \* the same key bytes under another of the chain's key types
    [] m = "algEthsecp" -> [t EXCEPT !.sigs[p].alg = "ethsecp"]
    [] m = "resignOtherKey" -> [t EXCEPT !.sigs[p] = Sig(Other, t.content)]
    [] m = "unsigned" -> [t EXCEPT !.sigs = <<>>]
    [] m = "dupCoSigner" -> IF Len(t.sigs) < 2 THEN t ELSE [t EXCEPT !.sigs[p] = t.sigs[3 - p]]   \* a co-signer's key and signature in this slot

Reqs == UNION {{r \in [1..n -> Keys \ {Other}] : \A i, j \in 1..n : i # j => r[i] # r[j]} : n \in Arity}

AInit == \E r \in Reqs : tx = Honest(r) /\ mut = "none" /\ pos = 1
AMutate == /\ mut = "none"
           /\ \E m \in Muts \ {"none"}, p \in 1..Len(tx.req) :
                /\ mut' = m /\ pos' = p /\ tx' = Apply(tx, m, p)
ASpec == AInit /\ [][AMutate]_avars

AdmittedIffAuthentic == Admit(tx) <=> Authentic(tx)
HonestAdmitted == mut = "none" => Admit(tx)
(* every single-field mutation that really changes the transaction is rejected *)
MutantsRejected == (mut # "none" /\ tx # Honest(tx.req)) => ~Admit(tx)
=============================================================================
