---------------------------- MODULE Hostile_Trace ----------------------------
(* Trace validation for C18: every line is one hostile case executed on a fresh replica of *)
(* the real application: CheckTx code, DeliverTx code when placed in a block (-1: the       *)
(* process exited, -2: the application closed itself after a recovered panic), and the      *)
(* codes of the probe transfer afterwards.                                                   *)
EXTENDS Hostile, Json

Trace == ndJsonDeserialize("trace.ndjson")
VARIABLES l, nviol
tvars == <<l, nviol, hvars>>
Ev == Trace[l]

Report(name, ok) ==
  IF ok THEN 0 ELSE IF PrintT(<<"PROPERTY-VIOLATED", name, "line", l, "trace", Ev.t, "h", Ev.h>>) THEN 1 ELSE 1

TraceInit == l = 1 /\ nviol = 0 /\ HInit
TraceStep ==
  /\ l <= Len(Trace) /\ l' = l + 1 /\ UNCHANGED hvars
  /\ nviol' = nviol + Report("StaysUp.checkTx", Answered(Ev.check))
                    + Report("StaysUp.deliverTx", Ev.check < 0 \/ Answered(Ev.deliver))
                    + Report("StaysUp.afterwards", Ev.check < 0 \/ Ev.deliver < 0 \/ (Ev.probeCheck >= 0 /\ Ev.probeDeliver >= 0))
                    + Report("ProbeUnchanged", Ev.check < 0 \/ Ev.deliver < 0 \/ Ev.probeCheck < 0 \/ Ev.probeDeliver < 0 \/ ProbeOk(Ev.probeCheck, Ev.probeDeliver))
TraceSpec == TraceInit /\ [][TraceStep]_tvars
TraceAccepted ==
  LET d == TLCGet("stats").diameter want == Len(Trace) + 1
  IN IF d = want THEN TRUE ELSE Print(<<"TRACE-REJECTED matched-states", d, "of", want>>, FALSE)
=============================================================================
