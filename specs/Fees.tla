-------------------------------- MODULE Fees --------------------------------
(* The fee pool of the chain (data/fees, action/base.go BasicFeeHandling,                *)
(* identity/validator_set.go GetEndBlockUpdate).                                          *)
(*                                                                                        *)
(*  - An executed transaction charges  gas used x gas price  to its first signer; the     *)
(*    amount goes to the pool record.  A transaction that fails pays nothing (its session *)
(*    is discarded with the fee step).                                                    *)
(*  - At the end of every block above height 1: when the pool holds MORE than the minimal *)
(*    fee, every validator RECORD (elected or not, frozen or not) of the previous block   *)
(*    is credited, under its stake address, with                                          *)
(*         floor(pool x power / total power)                                              *)
(*    where pool is the amount read ONCE at the beginning of the routine and power / total*)
(*    power are those of the previous block's records; the shares leave the pool, the     *)
(*    rounding remainder stays.                                                           *)
(*  - Nothing takes value out of a fee share: the code has a "what may be withdrawn"      *)
(*    query but no request kind that withdraws.                                           *)
(*                                                                                        *)
(* Particularities modelled as the code has them: the threshold is strict (pool = minimal *)
(* fee distributes nothing); validators with power 0 still in the records take part with  *)
(* a share of 0; two validators may name the same stake address (their shares add up).    *)
(*                                                                                        *)
(* Can, Do operators are pure and shared by the bounded model (FSpec) and by Fees_Trace.  *)
EXTENDS Integers, FiniteSets, Sequences, TLC

CONSTANTS Payers,      \* accounts paying fees (bounded model)
          Validators,  \* validator records (bounded model)
          Powers,      \* powers a record may have (bounded model)
          FeeAmts,     \* fee amounts of one transaction (bounded model)
          InitBal, MinFee, MaxSteps,
          Deviations   \* named wrong behaviours, for the vacuity control: "ceilShares", "shrinkingPool"

Get(f, k) == IF k \in DOMAIN f THEN f[k] ELSE 0

RECURSIVE SumSet(_, _)
SumSet(f, S) == IF S = {} THEN 0 ELSE LET x == CHOOSE y \in S : TRUE IN f[x] + SumSet(f, S \ {x})
Sum(f) == SumSet(f, DOMAIN f)

(* ---- the distribution rule ---- *)
Floor(total, pw, tp) == (total * pw) \div tp
Ceil(total, pw, tp) == (total * pw + tp - 1) \div tp

Distributes(pool, minFee, tp) == pool > minFee /\ tp > 0

(* increments per validator record; pw: validator -> power *)
Increments(pool, minFee, pw) ==
  LET tp == Sum(pw) IN
  IF Distributes(pool, minFee, tp)
  THEN [v \in DOMAIN pw |-> IF "ceilShares" \in Deviations THEN Ceil(pool, pw[v], tp) ELSE Floor(pool, pw[v], tp)]
  ELSE [v \in DOMAIN pw |-> 0]

(* the same per stake address; owner: validator -> stake address *)
IncByOwner(inc, owner) ==
  LET owners == {owner[v] : v \in DOMAIN inc} IN
  [o \in owners |-> SumSet(inc, {v \in DOMAIN inc : owner[v] = o})]

(* ---- bounded model ---- *)
VARIABLES bal, pool, share, power, steps
fvars == <<bal, pool, share, power, steps>>

FInit == /\ bal = [p \in Payers |-> InitBal] /\ pool = 0 /\ share = [v \in Validators |-> 0]
         /\ power \in [Validators -> Powers] /\ steps = 0

Pay(p, f) == /\ bal[p] >= f /\ bal' = [bal EXCEPT ![p] = @ - f] /\ pool' = pool + f
             /\ UNCHANGED <<share, power>> /\ steps' = steps + 1

(* deviation shrinkingPool: every validator's share is computed from what the pool still holds *)
RECURSIVE Shrink(_, _, _, _)
Shrink(p, vs, acc, tp) ==
  IF vs = <<>> THEN [pool |-> p, inc |-> acc]
  ELSE LET v == Head(vs) d == Floor(p, power[v], tp) IN Shrink(p - d, Tail(vs), [acc EXCEPT ![v] = d], tp)

SeqOf(S) == CHOOSE s \in [1..Cardinality(S) -> S] : \A i, j \in DOMAIN s : i # j => s[i] # s[j]

EndBlock ==
  /\ steps' = steps + 1 /\ UNCHANGED bal
  /\ LET tp == Sum(power)
         inc == IF "shrinkingPool" \in Deviations /\ Distributes(pool, MinFee, tp)
                THEN Shrink(pool, SeqOf(Validators), [v \in Validators |-> 0], tp).inc
                ELSE Increments(pool, MinFee, power)
     IN /\ share' = [v \in Validators |-> share[v] + inc[v]]
        /\ pool' = pool - Sum(inc)
  /\ power' \in [Validators -> Powers]   \* stakes change between blocks

FNext == steps < MaxSteps /\ (EndBlock \/ \E p \in Payers, f \in FeeAmts : Pay(p, f))
FSpec == FInit /\ [][FNext]_fvars

InvConserved == Sum(bal) + pool + Sum(share) = InitBal * Cardinality(Payers)
InvNonNegative == pool >= 0 /\ \A v \in Validators : share[v] >= 0
PropSharesNeverFall == [][\A v \in Validators : share'[v] >= share[v]]_fvars
(* equal powers earn equal shares, a higher power never earns less *)
PropByPower == [][\A v, w \in Validators : power[v] >= power[w] => share'[v] - share[v] >= share'[w] - share[w]]_fvars
(* what stays in the pool after a distribution is a rounding remainder *)
PropRemainderSmall == [][(pool' < pool) => pool' < Cardinality(Validators)]_fvars
PropThresholdStrict == [][(pool <= MinFee /\ bal' = bal) => (pool' = pool /\ share' = share)]_fvars
=============================================================================
