---------------------------- MODULE Staking_Trace ----------------------------
(* Trace validation of the stake lifecycle (C11).  Every line of trace.ndjson is the  *)
(* projection of the real application's stake records after InitChain ("Init") or     *)
(* after a block ("Block"), together with the block's accepted staking transactions    *)
(* in delivery order, the maturity option in force, and the verdicts of the block.     *)
(* TLC re-computes the block with the operators of module Staking (guards of every     *)
(* accepted transaction, effects, block-end maturity) and compares the result with     *)
(* the logged records; violations are printed and validation continues from the        *)
(* logged state.                                                                        *)
EXTENDS Staking, Json, SequencesExt

Trace == ndJsonDeserialize("trace.ndjson")

VARIABLES l, cur, nviol

tvars == <<st, h, op, l, cur, nviol>>

Ev == Trace[l]

Report(name, ok) ==
  IF ok THEN 0 ELSE IF PrintT(<<"PROPERTY-VIOLATED", name, "line", l, "trace", Ev.t, "h", Ev.h>>) THEN 1 ELSE 1

Keys2(f) == UNION {{<<a, b>> : b \in DOMAIN f[a]} : a \in DOMAIN f}
Eq1(f, g) == \A k \in DOMAIN f \cup DOMAIN g : Get(f, k) = Get(g, k)
Eq2(f, g) == \A p \in Keys2(f) \cup Keys2(g) : Get2(f, p[1], p[2]) = Get2(g, p[1], p[2])

(* apply the accepted transactions in order; collect guard violations *)
RECURSIVE Fold(_, _, _, _)
Fold(s, txs, i, bad) ==
  IF i > Len(txs) THEN [s |-> s, bad |-> bad]
  ELSE LET x == txs[i] IN
    CASE x.k = "STAKE" -> Fold(DoStake(s, x.v, x.d, x.a), txs, i + 1, IF CanStake(s, x.v, x.d, x.a) THEN bad ELSE bad \cup {"stake"})
      [] x.k = "UNSTAKE" -> Fold(DoUnstake(s, x.v, x.d, x.a, ToString(Ev.h + Ev.maturity)), txs, i + 1,
                                 IF CanUnstake(s, x.v, x.d, x.a) THEN bad ELSE bad \cup {"unstake"})
      [] x.k = "WITHDRAW" -> Fold(DoWithdraw(s, x.v, x.d, x.a), txs, i + 1, IF CanWithdraw(s, x.v, x.d, x.a) THEN bad ELSE bad \cup {"withdraw"})
      [] x.k = "RELEASE" -> Fold([s EXCEPT !.frozen = @ \ {x.v}], txs, i + 1, bad)
      [] OTHER -> Fold(s, txs, i + 1, bad)

(* verdicts of the block: the stake of the guilty validator's stake account is reduced by the penalty *)
RECURSIVE Slashes(_, _, _)
Slashes(s, g, i) ==
  IF i > Len(g) THEN s
  ELSE LET v == g[i].v
           d == g[i].d
           pen == Get2(s.eff, v, d) - Get2(Ev.s.eff, v, d)
       IN Slashes(IF pen >= 0 THEN DoSlash(s, v, d, pen) ELSE s, g, i + 1)

Logged(e, hist) ==
  [eff |-> e.s.eff, tot |-> e.s.tot, mat |-> e.s.mat, bnd |-> e.s.bnd, frozen |-> ToSet(e.s.frozen),
   staked |-> hist.staked, withdrawn |-> hist.withdrawn, slashed |-> hist.slashed]

TraceInit == st = Empty /\ h = 0 /\ op = "init" /\ l = 1 /\ cur = 0 /\ nviol = 0

(* the genesis stakes count as staked *)
TraceStart ==
  /\ l <= Len(Trace) /\ Ev.ev = "Init"
  /\ l' = l + 1 /\ cur' = Ev.t /\ h' = 0 /\ op' = "init"
  /\ st' = Logged(Ev, [staked |-> [d \in UNION {DOMAIN Ev.s.eff[v] : v \in DOMAIN Ev.s.eff} |->
                                      SumF([v \in DOMAIN Ev.s.eff |-> Get(Ev.s.eff[v], d)], DOMAIN Ev.s.eff)],
                       withdrawn |-> <<>>, slashed |-> <<>>])
  /\ nviol' = nviol + Report("TotalIsSum", TotalIsSum(Logged(Ev, Empty)))

TraceBlock ==
  /\ l <= Len(Trace) /\ Ev.ev = "Block" /\ Ev.t = cur
  /\ l' = l + 1 /\ cur' = cur /\ h' = Ev.h /\ op' = "block"
  /\ LET f == Fold(st, Ev.txs, 1, {})
         m == DoMature(f.s, ToString(Ev.h))
         c == Slashes(m, Ev.guilty, 1)
         lg == Logged(Ev, c)
     IN /\ st' = lg
        /\ nviol' = nviol
             + Report("AcceptedStakeAllowed", "stake" \notin f.bad)
             + Report("AcceptedUnstakeAllowed", "unstake" \notin f.bad)
             + Report("AcceptedWithdrawAllowed", "withdraw" \notin f.bad)
             + Report("Lifecycle.effective", Eq2(c.eff, Ev.s.eff))
             + Report("Lifecycle.total", Eq1(c.tot, Ev.s.tot))
             + Report("Lifecycle.maturing", Eq2(c.mat, Ev.s.mat))
             + Report("Lifecycle.withdrawable", Eq1(c.bnd, Ev.s.bnd))
             + Report("TotalIsSum", TotalIsSum(lg))
             + Report("ValidatorRecordMatchesTotal",
                      \A v \in (DOMAIN Ev.s.tot \cup DOMAIN Ev.valStaking) \ ToSet(Ev.delayed) : Get(Ev.s.tot, v) = Get(Ev.valStaking, v))
             + Report("NonNegative", NonNegative(lg))
             + Report("WithdrawnBounded", WithdrawnBounded(lg))

TraceNext == TraceStart \/ TraceBlock
TraceSpec == TraceInit /\ [][TraceNext]_tvars

TraceAccepted ==
  LET d == TLCGet("stats").diameter
      want == Len(Trace) + 1
  IN IF d = want THEN TRUE ELSE Print(<<"TRACE-REJECTED matched-states", d, "of", want>>, FALSE)
=============================================================================
