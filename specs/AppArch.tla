------------------------------- MODULE AppArch -------------------------------
(***************************************************************************)
(* Which state a shared store reads (property C07).                         *)
(*                                                                         *)
(* The application's stores are singletons whose state pointer is re-aimed  *)
(* by WithState(check | deliver) whenever a context is built                *)
(* (app/context.go Action, ValidatorCtx) or a block hook binds a store      *)
(* explicitly (app/controller.go).  Some keep copies of options in memory   *)
(* (fee option in the fee pool).  ABCI calls are atomic with respect to     *)
(* each other (Tendermint's local client serialises the connections) but    *)
(* CheckTx may come between any two of them.  The model follows, per ABCI   *)
(* call, the order in which pointers are re-aimed and stores are read, and  *)
(* marks data written by CheckTx only (taint).  The invariant: no read that *)
(* feeds consensus state goes through a pointer that designates a check     *)
(* state holding check-only writes, or through an in-memory copy set from   *)
(* one.  TLC enumerates all schedules of a few blocks and CheckTx calls.    *)
(*                                                                         *)
(* Deviations transcribe the code as it was:                                *)
(*   proposalsUnboundInBegin  AddInternalTX got the proposal store as last  *)
(*                            bound (pinned tree; repaired by 7a6dad9)      *)
(*   feeOptUnboundInBegin     BeginBlock read the fee option through the    *)
(*                            governance store as last bound                *)
(*   checkUpdatesMemory       a finalise request run by CheckTx updated the *)
(*                            in-memory option copies                       *)
(*   olvmValidateThroughCache a seeded change (C07-f4): the OLVM validation  *)
(*                            reads sender data through the EVM state's     *)
(*                            object cache, which outlives the CheckTx      *)
(*   validatorListCachedByVersion  a seeded change (C07-k3): the validator   *)
(*                            store keeps the decoded validator list, keyed *)
(*                            by the chain-state version - which the check  *)
(*                            state and the deliver state share; dropped on *)
(*                            validator-record writes                       *)
(*   stakeMapOutsideSession   a seeded change (C06-k2): the validator store *)
(*                            notes in a map, reset at BeginBlock, whose    *)
(*                            stake changed in the block; the shared object *)
(*                            is also written by CheckTx, block end reads it*)
(* Every counterexample of a deviation is a schedule the C07 check replays  *)
(* on the real application (families gov and govfee).                       *)
(***************************************************************************)
EXTENDS Naturals, Sequences, FiniteSets, TLC
CONSTANTS MaxBlocks, MaxChecks, MaxTx, Deviations

Fam == {"govern", "validators", "evidence", "balances", "deleg", "rewards", "proposals", "fee"}
(* objects a store pointer can designate: current / previous deliver state, current / previous check state, construction *)
Obj == {"dc", "do", "cc", "co", "boot"}
(* what a CheckTx may write in the check state, by kind of request *)
CheckKinds == {"rejected", "transfer", "vote", "finalise", "olvm", "stake", "fund"}
W(k) == CASE k = "rejected" -> {}
          [] k = "transfer" -> {"balances", "fee"}
          [] k = "vote" -> {"proposals", "balances", "fee"}
          [] k = "finalise" -> {"govern", "proposals", "balances", "fee"}
          [] k = "olvm" -> {}                            \* the OLVM mempool check executes nothing
          [] k = "stake" -> {"validators", "deleg", "balances", "fee"}
          [] k = "fund" -> {"proposals", "balances", "fee"}   \* reads the validator list when the goal is met (vote snapshot)
DeliverKinds == {"plain", "olvm", "stake", "fund"}

VARIABLES phase, blocks, checks, ntx, ptr, ctaint, memOpt, evmCache, valCache, stakeMap, viol
vars == <<phase, blocks, checks, ntx, ptr, ctaint, memOpt, evmCache, valCache, stakeMap, viol>>

Init == /\ phase = "idle" /\ blocks = 0 /\ checks = 0 /\ ntx = 0
        /\ ptr = [f \in Fam |-> "boot"]
        /\ ctaint = [o \in {"cc", "co"} |-> {}]      \* families with check-only writes in that check state
        /\ memOpt = FALSE                             \* the in-memory option copy was set from check-only data
        /\ evmCache = FALSE                           \* the EVM state's object cache holds an object loaded through a check state
        /\ valCache = "none"                         \* the validator store's list cache: none / filled from clean data / filled from check-only data
        /\ stakeMap = FALSE                          \* the per-block map of stake changes holds an entry written by a CheckTx
        /\ viol = {}

Tainted(p, f) == p[f] \in {"cc", "co"} /\ f \in ctaint[p[f]]
Read(p, f, site) == IF Tainted(p, f) THEN {<<site, f>>} ELSE {}
Reaim(p, F, o) == [f \in Fam |-> IF f \in F THEN o ELSE p[f]]

CheckTx(k) ==
  /\ checks < MaxChecks /\ checks' = checks + 1
  /\ ptr' = Reaim(ptr, Fam, "cc")                     \* Action(header, check) re-aims every store
  /\ ctaint' = [ctaint EXCEPT !["cc"] = @ \cup W(k)]
  /\ memOpt' = (memOpt \/ (k = "finalise" /\ "checkUpdatesMemory" \in Deviations))
  /\ evmCache' = (evmCache \/ (k = "olvm" /\ "olvmValidateThroughCache" \in Deviations))
  /\ valCache' = IF "validatorListCachedByVersion" \notin Deviations THEN "none"
                 ELSE IF k = "stake" THEN "none"                                      \* a validator-record write drops the cache
                 ELSE IF k = "fund" /\ valCache = "none"
                      THEN (IF "validators" \in ctaint["cc"] THEN "tainted" ELSE "clean")   \* filled through the check state
                 ELSE valCache
  /\ stakeMap' = (stakeMap \/ (k = "stake" /\ "stakeMapOutsideSession" \in Deviations))
  /\ UNCHANGED <<phase, blocks, ntx, viol>>

BeginBlock ==
  /\ phase = "idle" /\ blocks < MaxBlocks /\ phase' = "open" /\ ntx' = 0
  /\ LET p0 == [f \in Fam |-> IF ptr[f] = "dc" THEN "do" ELSE ptr[f]]     \* a new deliver state; old pointers designate the previous one
         p1 == IF "feeOptUnboundInBegin" \in Deviations THEN p0 ELSE Reaim(p0, {"govern"}, "dc")
         rFee == Read(p1, "govern", "BeginBlock.GetFeeOption")
         p2 == Reaim(p1, {"govern", "evidence"}, "dc")                      \* ManageVotes
         p3 == Reaim(p2, {"validators"}, "dc")                              \* validators.WithState(deliver).Setup
         p4 == Reaim(p3, {"deleg", "balances"}, "dc")                       \* addMaturedAmountsToBalance
         p5 == Reaim(p4, {"rewards"}, "dc")                                 \* handleBlockRewards
         p6 == IF "proposalsUnboundInBegin" \in Deviations THEN p5 ELSE Reaim(p5, {"proposals"}, "dc")
         rProp == Read(p6, "proposals", "BeginBlock.AddInternalTX")
     IN /\ ptr' = p6
        /\ memOpt' = (rFee # {})                                             \* feePool.SetupOpt(what was just read)
        /\ viol' = viol \cup rFee \cup rProp
  /\ stakeMap' = FALSE                                                       \* Setup resets the map
  /\ UNCHANGED <<blocks, checks, ctaint, evmCache, valCache>>

DeliverTx(kd) ==
  LET olvm == kd = "olvm" IN
  /\ phase = "open" /\ ntx < MaxTx /\ ntx' = ntx + 1
  /\ ptr' = Reaim(ptr, Fam, "dc")                     \* Action(header, deliver)
  /\ viol' = viol \cup (IF memOpt THEN {<<"DeliverTx.ValidateFee", "memOpt">>} ELSE {})
                   \cup (IF olvm /\ evmCache THEN {<<"DeliverTx.OLVM", "evmCache">>} ELSE {})
                   \cup (IF kd = "fund" /\ valCache = "tainted" THEN {<<"DeliverTx.fund.snapshot", "valCache">>} ELSE {})
  /\ evmCache' = IF olvm THEN FALSE ELSE evmCache       \* an EVM execution ends with Finalise, which empties the cache
  /\ valCache' = IF "validatorListCachedByVersion" \notin Deviations THEN "none"
                 ELSE IF kd = "stake" THEN "none"
                 ELSE IF kd = "fund" /\ valCache = "none" THEN "clean"
                 ELSE valCache
  /\ UNCHANGED <<phase, blocks, checks, ctaint, memOpt, stakeMap>>

EndBlock ==
  /\ phase = "open" /\ phase' = "ended"
  /\ LET p1 == Reaim(ptr, {"fee", "balances", "validators", "evidence", "govern", "deleg"}, "dc")   \* ValidatorCtx()
         rMem == IF memOpt THEN {<<"EndBlock.distribute", "memOpt">>} ELSE {}
         p2 == Reaim(p1, Fam, "dc")                                          \* Expire / Finalize: Action(header, deliver)
         rMap == IF stakeMap THEN {<<"EndBlock.deleteRecords", "stakeMap">>} ELSE {}
     IN /\ ptr' = p2 /\ viol' = viol \cup rMem \cup rMap
  /\ evmCache' = FALSE                                \* stateDB.Reset()
  /\ UNCHANGED <<blocks, checks, ntx, ctaint, memOpt, valCache, stakeMap>>

Commit ==
  /\ phase = "ended" /\ phase' = "idle" /\ blocks' = blocks + 1
  /\ ptr' = [f \in Fam |-> IF ptr[f] = "cc" THEN "co" ELSE ptr[f]]       \* check := new state; stores keep pointing at the old one
  /\ ctaint' = [cc |-> {}, co |-> ctaint["cc"]]
  /\ valCache' = "none"                              \* a new chain-state version: the cache key changes
  /\ UNCHANGED <<checks, ntx, memOpt, evmCache, stakeMap, viol>>

Next == BeginBlock \/ (\E kd \in DeliverKinds : DeliverTx(kd)) \/ EndBlock \/ Commit \/ \E k \in CheckKinds : CheckTx(k)
Spec == Init /\ [][Next]_vars

NoTaintInConsensus == viol = {}
TypeOK == ptr \in [Fam -> Obj] /\ phase \in {"idle", "open", "ended"}
=============================================================================
