SPECIFICATION TraceSpec
CONSTANTS
  Keys = {"k1", "k2", "k3"}
  Vals = {"a", "b"}
  MaxCommits = 4
  MaxSteps = 1000000
  MaxPend = 1000
  Recent = 0
  Every = 2
  Cycles = 1
  TombstoneLeak = FALSE
INVARIANTS TypeOK OrderMatchesMap DeletedIsAbsent LastVersionLive ReopenIsLastCommit LogReproducesVersions
POSTCONDITION TraceAccepted
CHECK_DEADLOCK FALSE
