-------------------------------- MODULE Olvm --------------------------------
(***************************************************************************)
(* OLVM transactions on the one ledger (property C17).                      *)
(*                                                                         *)
(* Transcribes what action/olvm/handler.go, vm/state_transition.go          *)
(* (preCheck, buyGas, TransitionDb, refundGas), action/base.go              *)
(* ContractFeeHandling and data/balance/keeper.go do to the ledger:         *)
(*   s.bal[o]    OLT balance of owner o - the only balance there is: the    *)
(*               EVM reads and writes the same record as native transfers   *)
(*   s.nonce[o]  EVM sequence number of o                                   *)
(*   s.kind[c]   program deployed at address c ("" = no code)               *)
(*   s.pool      fee pool                                                   *)
(* The EVM itself is not specified here (C16 binds the state adapter to     *)
(* the reference semantics): a request x carries what the application       *)
(* reported for it - x.code (DeliverTx code), x.status ("1" executed,      *)
(* "0" executed and failed), x.used (gas used) - and the specification      *)
(* says what the ledger must look like given that report.  The programs the *)
(* workloads deploy are known by name; what each does with value is part of *)
(* the specification (Moves).                                               *)
(***************************************************************************)
EXTENDS Integers, Sequences, FiniteSets, TLC

Get(f, k) == IF k \in DOMAIN f THEN f[k] ELSE 0
GetS(f, k) == IF k \in DOMAIN f THEN f[k] ELSE ""
Put(f, k, x) == [y \in DOMAIN f \cup {k} |-> IF y = k THEN x ELSE f[y]]
Add(f, k, x) == Put(f, k, Get(f, k) + x)

(* programs whose failure is certain *)
Failing == {"revert", "loop"}

(* where the value v of a successful message from f to t ends up, t running program k with argument a *)
(* (a set of <<owner, delta>> pairs; s is the ledger after gas was bought)                            *)
Moves(s, f, t, k, a, v) ==
  CASE k \in {"forward", "nest"} ->                         \* nest: a failing nested call first, which leaves nothing, then like forward
         IF GetS(s.kind, a) \in Failing
         THEN {<<f, -v>>, <<t, v>>}                     \* the inner call fails, the forwarder keeps the value
         ELSE {<<f, -v>>, <<a, v>>}
    [] k = "suicide" -> {<<f, -v>>, <<t, -Get(s.bal, t)>>, <<a, Get(s.bal, t) + v>>}
    [] OTHER -> {<<f, -v>>, <<t, v>>}
RECURSIVE Apply(_, _)
Apply(bal, ms) == IF ms = {} THEN bal ELSE LET m == CHOOSE x \in ms : TRUE IN Apply(Add(bal, m[1], m[2]), ms \ {m})

(* ---- guards of an executed transaction (DeliverTx code 0) ---- *)
CanExecute(s, x) ==
  /\ Get(s.nonce, x.from) = x.nonce                        \* exactly the sender's sequence number (the mempool check also lets higher ones wait)
  /\ GetS(s.kind, x.from) = ""                             \* the sender is not a contract
  /\ Get(s.bal, x.from) >= x.gas * x.price + x.amt         \* can pay for the gas limit and the value
  /\ x.used <= x.gas /\ x.used >= 0
  /\ x.chainOk /\ x.signedBy = x.from

(* ---- effect of an executed transaction ---- *)
DoExecute(s, x) ==
  LET fee == x.used * x.price
      paid == [s EXCEPT !.bal = Add(@, x.from, -fee), !.pool = @ + fee, !.nonce = Put(@, x.from, Get(s.nonce, x.from) + 1)]
      ok == x.status = "1"
  IN IF ~ok THEN paid
     ELSE IF x.to = ""                                        \* creation: the new contract receives the value
          THEN [paid EXCEPT !.bal = Add(Add(@, x.from, -x.amt), x.created, x.amt), !.kind = Put(@, x.created, x.prog),
                            !.nonce = Put(@, x.created, 1)]
          ELSE LET k == GetS(s.kind, x.to)
                   b == Apply(paid.bal, Moves(paid, x.from, x.to, k, x.arg, x.amt))
               IN IF k = "suicide" THEN [paid EXCEPT !.bal = b, !.kind = Put(@, x.to, ""), !.nonce = Put(@, x.to, 0)]
                  ELSE [paid EXCEPT !.bal = b]
(* the outcome the known programs must have *)
OutcomeAsProgram(s, x) ==
  x.to # "" => LET k == GetS(s.kind, x.to) IN
     /\ (k \in Failing => x.status = "0")
     /\ (k = "loop" => x.used = x.gas)                        \* out of gas takes all of it
     /\ (k \in {"", "store", "toggle", "probe"} /\ x.gas >= 60000 => x.status = "1")
     /\ (k = "nest" /\ x.gas >= 300000 => x.status = "1")     \* the failure of the nested call is not the outer call's
(* what the probe program saw through the EVM is the ledger's number *)
ProbeSees(s, x) ==
  (x.to # "" /\ GetS(s.kind, x.to) = "probe" /\ x.status = "1" /\ x.probed >= 0) =>
      x.probed = (IF x.arg = x.from THEN Get(s.bal, x.from) - x.gas * x.price - x.amt
                  ELSE IF x.arg = x.to THEN Get(s.bal, x.to) + x.amt ELSE Get(s.bal, x.arg))

DoFee(s, p, f) == [s EXCEPT !.bal = Add(@, p, -f), !.pool = @ + f]
DoSend(s, x) == [s EXCEPT !.bal = Add(Add(@, x.from, -x.amt), x.to, x.amt)]

NonNegative(s) == s.pool >= 0 /\ \A o \in DOMAIN s.bal : s.bal[o] >= 0
Total(s) == LET RECURSIVE Sum(_) Sum(ks) == IF ks = {} THEN 0 ELSE LET k == CHOOSE x \in ks : TRUE IN s.bal[k] + Sum(ks \ {k})
            IN Sum(DOMAIN s.bal) + s.pool

(***************************************************************************)
(* Bounded model: two EVM accounts, one native account, one contract        *)
(* address per program; gas limit G at price 1; the EVM's verdict (status,  *)
(* gas used) is chosen nondeterministically within what the programs allow. *)
(***************************************************************************)
CONSTANTS Eoas, Natives, Progs, G, Amts, InitBal, MaxSteps, Deviations

VARIABLES st, steps
mvars == <<st, steps>>
Caddr(p) == "c:" \o p

MInit == /\ st = [bal |-> [o \in Eoas \cup Natives |-> InitBal], nonce |-> <<>>, kind |-> <<>>, pool |-> 0]
         /\ steps = 0
Req(f, t, v, n, used, status, prog, arg) ==
  [from |-> f, to |-> t, amt |-> v, nonce |-> n, gas |-> G, price |-> 1, used |-> used, status |-> status, prog |-> prog,
   created |-> IF t = "" THEN Caddr(prog) ELSE "", arg |-> arg, chainOk |-> TRUE, signedBy |-> f, probed |-> 0 - 1, code |-> 0]
Used == {1, G}
Tx(x) == /\ steps < MaxSteps /\ steps' = steps + 1
         /\ CanExecute(st, x) /\ OutcomeAsProgram(st, x)
         /\ st' = IF "keepGasOnFailure" \in Deviations /\ x.status = "0"
                  THEN [DoExecute(st, x) EXCEPT !.bal = Add(@, x.from, -(x.gas - x.used) * x.price)]    \* the unused gas is not returned
                  ELSE DoExecute(st, x)
Create(f, p, v, used, status) == GetS(st.kind, Caddr(p)) = "" /\ Tx(Req(f, "", v, Get(st.nonce, f), used, status, p, ""))
Call(f, t, v, used, status, arg) == Tx(Req(f, t, v, Get(st.nonce, f), used, status, "", arg))
Native(f, t, v) == /\ steps < MaxSteps /\ steps' = steps + 1 /\ Get(st.bal, f) >= v /\ st' = DoSend(st, [from |-> f, to |-> t, amt |-> v])
Everyone == Eoas \cup Natives \cup {Caddr(p) : p \in Progs}
MNext ==
  \/ \E f \in Eoas, p \in Progs, v \in Amts, u \in Used, s \in {"0", "1"} : Create(f, p, v, u, s)
  \/ \E f \in Eoas, t \in Everyone, v \in Amts, u \in Used, s \in {"0", "1"}, a \in Everyone : Call(f, t, v, u, s, a)
  \/ \E f \in Natives, t \in Everyone, v \in Amts : Native(f, t, v)
MSpec == MInit /\ [][MNext]_mvars

InvConserved == Total(st) = InitBal * Cardinality(Eoas \cup Natives)
InvNonNegative == NonNegative(st)
(* an executed transaction raises the sender's sequence by exactly one and nobody else's (but a created contract's) *)
PropNonceByOne ==
  [][\A o \in Eoas : Get(st'.nonce, o) \in {Get(st.nonce, o), Get(st.nonce, o) + 1}]_mvars
(* the pool only grows, by what senders pay for gas *)
PropPoolGrows == [][st'.pool >= st.pool]_mvars
=============================================================================
