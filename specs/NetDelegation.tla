---------------------------- MODULE NetDelegation ----------------------------
(***************************************************************************)
(* Network delegation (property C12).                                       *)
(*                                                                         *)
(* Transcribes action/network_delegation/{add_network_delegation,           *)
(* network_undelegate,withdraw_rewards,reinvest_rewards}.go, the maturity   *)
(* hooks addMaturedAmountsToBalance / matureDelegationRewards of            *)
(* app/controller.go (BeginBlock) and the balance effects of the            *)
(* transactions that occur in the delegation workloads (SEND, SENDPOOL,     *)
(* fee step), so that "paid into the delegator's balance exactly once, at   *)
(* the undelegation height plus the maturity period, to nobody else" can be *)
(* decided on balances.                                                      *)
(*   s.act[d]      active delegation                                        *)
(*   s.pend[h][d]  undelegated amount maturing at the beginning of block h  *)
(*   s.claim[d]    accrued reward claim                                     *)
(*   s.cpend[h][d] reward withdrawal maturing at the beginning of block h   *)
(*   s.bal[o]      OLT balance of owner o; Pool is the delegation pool      *)
(*   s.donated     history: sent to the pool directly                       *)
(* Reward accrual (BeginBlock, C13) is not computed here: claims may grow   *)
(* by at most the block's reported delegation reward.                       *)
(***************************************************************************)
EXTENDS Integers, Sequences, FiniteSets, TLC

Pool == "pool:delegation"

Get(f, k) == IF k \in DOMAIN f THEN f[k] ELSE 0
Get2(f, a, b) == IF a \in DOMAIN f THEN Get(f[a], b) ELSE 0
Put(f, k, x) == [y \in DOMAIN f \cup {k} |-> IF y = k THEN x ELSE f[y]]
Put2(f, a, b, x) == Put(f, a, Put(IF a \in DOMAIN f THEN f[a] ELSE <<>>, b, x))
Add(f, k, x) == Put(f, k, Get(f, k) + x)
Add2(f, a, b, x) == Put2(f, a, b, Get2(f, a, b) + x)
RECURSIVE SumF(_, _)
SumF(f, ks) == IF ks = {} THEN 0 ELSE LET k == CHOOSE x \in ks : TRUE IN f[k] + SumF(f, ks \ {k})
Sum(f) == SumF(f, DOMAIN f)

(* ---- guards ---- *)
CanDelegate(s, d, a) == a >= 0 /\ Get(s.bal, d) >= a
CanUndelegate(s, d, a) == a >= 0 /\ Get(s.act, d) >= a /\ Get(s.bal, Pool) >= a
CanWithdrawRw(s, d, a) == a >= 0 /\ Get(s.claim, d) >= a
CanReinvest(s, d, a) == a >= 0 /\ Get(s.claim, d) >= a

(* ---- effects ---- *)
DoDelegate(s, d, a) == [s EXCEPT !.bal = Add(Add(@, d, -a), Pool, a), !.act = Add(@, d, a)]
DoUndelegate(s, d, a, m) == [s EXCEPT !.act = Add(@, d, -a), !.pend = Add2(@, m, d, a), !.bal = Add(@, Pool, -a)]
DoWithdrawRw(s, d, a, m) == [s EXCEPT !.claim = Add(@, d, -a), !.cpend = Add2(@, m, d, a)]
DoReinvest(s, d, a) == [s EXCEPT !.claim = Add(@, d, -a), !.bal = Add(@, Pool, a), !.act = Add(@, d, a)]
DoSend(s, x, y, a) == [s EXCEPT !.bal = Add(Add(@, x, -a), y, a), !.donated = IF y = Pool THEN @ + a ELSE @]
DoFee(s, p, f) == [s EXCEPT !.bal = Add(@, p, -f)]

(* BeginBlock(h): every pending entry of height h is paid to its delegator and zeroed *)
PayMap(bal, m) == [o \in DOMAIN bal \cup DOMAIN m |-> Get(bal, o) + Get(m, o)]
DoPayPending(s, h) == IF h \notin DOMAIN s.pend THEN s
                      ELSE [s EXCEPT !.bal = PayMap(@, s.pend[h]), !.pend = [x \in DOMAIN @ \ {h} |-> @[x]]]
DoPayClaims(s, h) == IF h \notin DOMAIN s.cpend THEN s
                     ELSE [s EXCEPT !.bal = PayMap(@, s.cpend[h]), !.cpend = [x \in DOMAIN @ \ {h} |-> @[x]]]
DoAccrue(s, d, a) == [s EXCEPT !.claim = Add(@, d, a)]

(* ---- properties ---- *)
PoolCovers(s) == /\ Get(s.bal, Pool) >= Sum(s.act)
                 /\ (s.donated = 0 => Get(s.bal, Pool) = Sum(s.act))
NonNegative(s) == /\ \A d \in DOMAIN s.act : s.act[d] >= 0
                  /\ \A d \in DOMAIN s.claim : s.claim[d] >= 0
                  /\ \A h \in DOMAIN s.pend : \A d \in DOMAIN s.pend[h] : s.pend[h][d] >= 0
                  /\ \A h \in DOMAIN s.cpend : \A d \in DOMAIN s.cpend[h] : s.cpend[h][d] >= 0

(***************************************************************************)
(* Bounded model.                                                           *)
(***************************************************************************)
CONSTANTS Ds, Amts, K, MaxH

VARIABLES st, h, paid
nvars == <<st, h, paid>>

NInit == /\ st = [act |-> <<>>, pend |-> <<>>, claim |-> <<>>, cpend |-> <<>>,
                  bal |-> [d \in Ds \cup {Pool} |-> IF d = Pool THEN 0 ELSE 2], donated |-> 0]
         /\ h = 1 /\ paid = <<>>

Delegate(d, a) == CanDelegate(st, d, a) /\ st' = DoDelegate(st, d, a) /\ UNCHANGED <<h, paid>>
Undelegate(d, a) == CanUndelegate(st, d, a) /\ st' = DoUndelegate(st, d, a, h + K) /\ UNCHANGED <<h, paid>>
WithdrawRw(d, a) == CanWithdrawRw(st, d, a) /\ st' = DoWithdrawRw(st, d, a, h + K) /\ UNCHANGED <<h, paid>>
Reinvest(d, a) == CanReinvest(st, d, a) /\ st' = DoReinvest(st, d, a) /\ UNCHANGED <<h, paid>>
Donate(d, a) == Get(st.bal, d) >= a /\ st' = DoSend(st, d, Pool, a) /\ UNCHANGED <<h, paid>>
(* next block begins: maturities are paid, a reward may accrue *)
NextBlock == /\ h < MaxH /\ h' = h + 1
             /\ \E acc \in {0, 1}, d \in Ds :
                  st' = DoAccrue(DoPayClaims(DoPayPending(st, h + 1), h + 1), d, IF Get(st.act, d) > 0 THEN acc ELSE 0)
             /\ paid' = IF (h + 1) \in DOMAIN st.pend THEN Put(paid, h + 1, st.pend[h + 1]) ELSE paid

NNext == \/ \E d \in Ds, a \in Amts : Delegate(d, a) \/ Undelegate(d, a) \/ WithdrawRw(d, a) \/ Reinvest(d, a) \/ Donate(d, a)
         \/ NextBlock
NSpec == NInit /\ [][NNext]_nvars

InvPoolCovers == PoolCovers(st)
InvNonNegative == NonNegative(st)
(* nothing stays pending at or below the current height: it was paid exactly when its height began *)
InvPaidAtMaturity == /\ \A x \in DOMAIN st.pend : x > h
                     /\ \A x \in DOMAIN st.cpend : x > h
                     /\ \A x \in DOMAIN paid : x <= h
(* value conservation: balances + pending undelegations = initial balances + paid-out claims *)
ClaimBound == \A d \in Ds : Get(st.claim, d) + Get2(st.cpend, h + 1, d) + Get2(st.cpend, h + 2, d) <= 1
=============================================================================
