------------------------------ MODULE Storage ------------------------------
(***************************************************************************)
(* The layered chain-state store of Oneledger/protocol (package storage).  *)
(*                                                                         *)
(* Transcribes:                                                            *)
(*   storage/state.go         State.Get/Set/Exists/Delete, BeginTxSession, *)
(*                            CommitTxSession, DiscardTxSession, Write,    *)
(*                            Commit, GetVersioned                          *)
(*   storage/session_cache.go sessionCache / cacheSession (ordered keys)   *)
(*   storage/chainstate.go    ChainState.Commit (SaveVersion + rotation),  *)
(*                            loadDB (Reopen), GetVersioned                *)
(*                                                                         *)
(* Abstract state: a working tree, the saved versions on disk, the block   *)
(* cache (map + first-write order), an optional transaction session (map + *)
(* first-write order).  History variables: wlog (for every commit the      *)
(* ordered batch of writes that reached the tree since the previous        *)
(* commit) and op (label, arguments and result of the last operation).     *)
(*                                                                         *)
(* Semantics are those of property C09: the most recent write in scope     *)
(* wins, a deleted key reads as ABSENT, discarded writes are never         *)
(* visible, commit persists exactly the surviving writes as an immutable   *)
(* version, pruned versions read as absent, reopen returns the last        *)
(* commit, read-only operations leave the write log alone.                 *)
(*                                                                         *)
(* Not modelled: gas metering of the GasStore wrapper (the harness runs    *)
(* the same sequences with and without it and expects equal answers),      *)
(* iteration, the mutex.                                                    *)
(***************************************************************************)
EXTENDS Integers, Sequences, FiniteSets, TLC

CONSTANTS Keys, Vals, MaxCommits, MaxSteps, MaxPend,
          Recent, Every, Cycles,      \* chain-state rotation setting
          TombstoneLeak               \* TRUE: transcribe the pinned code's reads of overlay-deleted keys

Absent == "-"
Tomb   == "T"
Unset  == "u"

VARIABLES tree,      \* working tree: key -> value or Absent
          vers,      \* sequence of committed maps; index = version number
          live,      \* set of version numbers still readable on disk
          cmap, corder,          \* block cache
          sess, smap, sorder,    \* transaction session
          pend,      \* writes flushed into the tree since the last commit (ordered)
          wlog,      \* history: one batch per commit
          steps,     \* operation counter (bounded exploration only)
          op         \* last operation: [n, k, v, r]

core == <<tree, vers, live, cmap, corder, sess, smap, sorder, pend>>
vars == <<tree, vers, live, cmap, corder, sess, smap, sorder, pend, wlog, steps, op>>

NoIter == [k \in Keys |-> ""]
EmptyMap == [k \in Keys |-> Unset]
EmptyTree == [k \in Keys |-> Absent]

Init == /\ tree = EmptyTree
        /\ vers = <<>> /\ live = {}
        /\ cmap = EmptyMap /\ corder = <<>>
        /\ sess = FALSE /\ smap = EmptyMap /\ sorder = <<>>
        /\ pend = <<>> /\ wlog = <<>> /\ steps = 0
        /\ op = [n |-> "init", k |-> "", v |-> "", r |-> "", it |-> NoIter]

(* the innermost overlay entry for k, or the tree value *)
Lookup(k) == IF sess /\ smap[k] # Unset THEN smap[k]
             ELSE IF cmap[k] # Unset THEN cmap[k] ELSE tree[k]

(* C09: a deleted key reads as absent.  With TombstoneLeak the code's       *)
(* behaviour is transcribed instead: an overlay tombstone is returned as a  *)
(* value (State.Get returns the stored bytes verbatim, Exists reports true) *)
GetResult(k) == LET x == Lookup(k) IN
                  IF x = Tomb THEN (IF TombstoneLeak THEN Tomb ELSE Absent) ELSE x
ExistsResult(k) == LET x == Lookup(k) IN
                  IF x = Tomb THEN TombstoneLeak ELSE x # Absent

Tick == steps' = steps + 1
Label(n, k, v, r) == op' = [n |-> n, k |-> k, v |-> v, r |-> r, it |-> NoIter]

PutOverlay(k, x) ==
  IF sess THEN /\ smap' = [smap EXCEPT ![k] = x]
               /\ sorder' = IF smap[k] = Unset THEN Append(sorder, k) ELSE sorder
               /\ UNCHANGED <<cmap, corder>>
          ELSE /\ cmap' = [cmap EXCEPT ![k] = x]
               /\ corder' = IF cmap[k] = Unset THEN Append(corder, k) ELSE corder
               /\ UNCHANGED <<smap, sorder>>

Set(k, v) == /\ Tick /\ PutOverlay(k, v) /\ Label("Set", k, v, "ok")
             /\ UNCHANGED <<tree, vers, live, sess, pend, wlog>>

Delete(k) == /\ Tick /\ PutOverlay(k, Tomb) /\ Label("Delete", k, "", "ok")
             /\ UNCHANGED <<tree, vers, live, sess, pend, wlog>>

Get(k) == /\ Tick /\ Label("Get", k, "", GetResult(k))
          /\ UNCHANGED <<core, wlog>>

Exists(k) == /\ Tick /\ Label("Exists", k, "", IF ExistsResult(k) THEN "true" ELSE "false")
             /\ UNCHANGED <<core, wlog>>

(* State.Iterate: the keys come from the working tree only (a key that exists only in an *)
(* overlay is not visited - transcribed as the code does it), each value is read through *)
(* the overlays; a key whose most recent write in scope is a delete is not visited.      *)
Iter == /\ Tick
        /\ op' = [n |-> "Iter", k |-> "", v |-> "", r |-> "ok",
                  it |-> [k \in Keys |-> IF tree[k] = Absent THEN Absent ELSE GetResult(k)]]
        /\ UNCHANGED <<core, wlog>>

Begin == /\ Tick /\ sess' = TRUE /\ smap' = EmptyMap /\ sorder' = <<>>
         /\ Label("Begin", "", "", "ok")
         /\ UNCHANGED <<tree, vers, live, cmap, corder, pend, wlog>>

Discard == /\ Tick /\ sess' = FALSE /\ smap' = EmptyMap /\ sorder' = <<>>
           /\ Label("Discard", "", "", "ok")
           /\ UNCHANGED <<tree, vers, live, cmap, corder, pend, wlog>>

RECURSIVE Merge(_, _, _, _)
Merge(m, o, sm, so) ==
  IF so = <<>> THEN <<m, o>>
  ELSE LET k == Head(so) IN
       Merge([m EXCEPT ![k] = sm[k]], IF m[k] = Unset THEN Append(o, k) ELSE o, sm, Tail(so))

CommitS == /\ Tick /\ sess
           /\ LET r == Merge(cmap, corder, smap, sorder) IN cmap' = r[1] /\ corder' = r[2]
           /\ sess' = FALSE /\ smap' = EmptyMap /\ sorder' = <<>>
           /\ Label("CommitS", "", "", "ok")
           /\ UNCHANGED <<tree, vers, live, pend, wlog>>

(* State.Write: the block cache is replayed into the tree in first-write order; *)
(* a tombstone removes the key (removing a key that is not there does nothing). *)
RECURSIVE Flush(_, _, _)
Flush(t, m, o) ==
  IF o = <<>> THEN t
  ELSE LET k == Head(o) IN
       Flush([t EXCEPT ![k] = IF m[k] = Tomb THEN Absent ELSE m[k]], m, Tail(o))

RECURSIVE Applied(_, _, _)
(* the writes that really reach the tree: a removal of a missing key is not one *)
Applied(t, m, o) ==
  IF o = <<>> THEN <<>>
  ELSE LET k == Head(o)
           rest == Applied([t EXCEPT ![k] = IF m[k] = Tomb THEN Absent ELSE m[k]], m, Tail(o))
       IN IF m[k] = Tomb /\ t[k] = Absent THEN rest ELSE <<<<k, m[k]>>>> \o rest

(* State.Write(): flush without making a version (InitChain does this).  The cache is *)
(* kept (Write does not clear it), so the same entries are flushed again later.        *)
WriteOnly == /\ Tick /\ Len(pend) + Len(corder) <= MaxPend
             /\ tree' = Flush(tree, cmap, corder)
             /\ pend' = pend \o Applied(tree, cmap, corder)
             /\ Label("Write", "", "", "ok")
             /\ UNCHANGED <<vers, live, cmap, corder, sess, smap, sorder, wlog>>

Pruned(V, lv) ==
  (* versions deleted by ChainState.Commit when version V is saved; lv = LastVersion *)
  LET rel == lv - Recent
      d1 == IF rel > 0 /\ (Every = 0 \/ rel % Every # 0) THEN {rel} ELSE {}
      d2 == IF rel > 0 /\ Cycles # 0 /\ Every # 0 /\ rel % Every = 0
            THEN {rel - Cycles * Every} ELSE {}
  IN (d1 \cup d2) \ {V}

BlockCommit ==
  /\ Tick /\ Len(vers) < MaxCommits
  /\ LET t == Flush(tree, cmap, corder)
         V == Len(vers) + 1
     IN /\ tree' = t
        /\ vers' = Append(vers, t)
        /\ live' = (live \cup {V}) \ Pruned(V, Len(vers))
        /\ wlog' = Append(wlog, pend \o Applied(tree, cmap, corder))
        /\ Label("BlockCommit", "", "", "ok")
  /\ pend' = <<>>
  /\ cmap' = EmptyMap /\ corder' = <<>> /\ sess' = FALSE /\ smap' = EmptyMap /\ sorder' = <<>>

(* process restart: everything volatile is lost, the tree is the last saved version *)
Reopen == /\ Tick
          /\ tree' = IF vers = <<>> THEN EmptyTree ELSE vers[Len(vers)]
          /\ cmap' = EmptyMap /\ corder' = <<>> /\ sess' = FALSE /\ smap' = EmptyMap /\ sorder' = <<>>
          /\ pend' = <<>>
          /\ Label("Reopen", "", "", "ok")
          /\ UNCHANGED <<vers, live, wlog>>

GetVer(ver, k) == /\ Tick /\ ver \in 1..MaxCommits
                  /\ Label("GetVer", k, ToString(ver),
                           IF ver \in live THEN vers[ver][k] ELSE Absent)
                  /\ UNCHANGED <<core, wlog>>

Next == \/ \E k \in Keys : \/ \E v \in Vals : Set(k, v)
                           \/ Delete(k) \/ Get(k) \/ Exists(k)
                           \/ \E ver \in 1..MaxCommits : GetVer(ver, k)
        \/ Iter \/ Begin \/ Discard \/ CommitS \/ WriteOnly \/ BlockCommit \/ Reopen

Spec == Init /\ [][Next]_vars

StepBound == steps <= MaxSteps

(******************************* properties *******************************)
TypeOK == /\ \A k \in Keys : tree[k] \in Vals \cup {Absent}
          /\ \A k \in Keys : cmap[k] \in Vals \cup {Tomb, Unset}
          /\ \A k \in Keys : smap[k] \in Vals \cup {Tomb, Unset}
          /\ live \subseteq 1..Len(vers)
          /\ Len(wlog) = Len(vers)

(* overlays: order lists exactly the keys that are set *)
OrderMatchesMap ==
  /\ {corder[i] : i \in 1..Len(corder)} = {k \in Keys : cmap[k] # Unset}
  /\ {sorder[i] : i \in 1..Len(sorder)} = {k \in Keys : smap[k] # Unset}
  /\ Len(corder) = Cardinality({k \in Keys : cmap[k] # Unset})
  /\ (~sess => smap = EmptyMap)

(* a read never returns the tombstone marker, and Exists agrees with Get *)
DeletedIsAbsent ==
  /\ (op.n = "Get" => op.r \in Vals \cup {Absent})
  /\ (op.n = "GetVer" => op.r \in Vals \cup {Absent})
  /\ (op.n = "Iter" => \A k \in Keys : op.it[k] \in Vals \cup {Absent})

(* the last version is always readable and equals the tree right after a commit/reopen *)
LastVersionLive == vers # <<>> => Len(vers) \in live
ReopenIsLastCommit ==
  op.n \in {"Reopen", "BlockCommit"} /\ vers # <<>> => tree = vers[Len(vers)]

(* replaying the write log on an empty map reproduces every version: commit persists *)
(* exactly the surviving writes                                                       *)
RECURSIVE ApplyBatch(_, _)
ApplyBatch(t, b) == IF b = <<>> THEN t
                    ELSE ApplyBatch([t EXCEPT ![Head(b)[1]] = IF Head(b)[2] = Tomb THEN Absent ELSE Head(b)[2]], Tail(b))
RECURSIVE Replay(_, _, _)
Replay(t, log, i) == IF i > Len(log) THEN TRUE
                     ELSE LET t2 == ApplyBatch(t, log[i]) IN t2 = vers[i] /\ Replay(t2, log, i + 1)
LogReproducesVersions == Replay(EmptyTree, wlog, 1)

(* action properties *)
VersionsImmutable ==
  [][\A i \in 1..Len(vers) : Len(vers') >= i /\ vers'[i] = vers[i]]_vars
ReadsDontWrite ==
  [][op'.n \in {"Get", "Exists", "GetVer", "Iter", "Begin", "Discard"} =>
       UNCHANGED <<tree, vers, live, cmap, corder, pend, wlog>>]_vars
DiscardInvisible ==
  [][op'.n = "Discard" => \A k \in Keys :
        (IF cmap'[k] # Unset THEN cmap'[k] ELSE tree'[k]) = (IF cmap[k] # Unset THEN cmap[k] ELSE tree[k])]_vars
LookupNext(k) == IF sess' /\ smap'[k] # Unset THEN smap'[k]
                 ELSE IF cmap'[k] # Unset THEN cmap'[k] ELSE tree'[k]
ReadYourWrites ==
  [][/\ (op'.n = "Set" => LookupNext(op'.k) = op'.v)
     /\ (op'.n = "Delete" => LookupNext(op'.k) = Tomb)]_vars

View == <<tree, vers, live, cmap, corder, sess, smap, sorder, pend, steps>>
=============================================================================
