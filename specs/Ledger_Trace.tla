---------------------------- MODULE Ledger_Trace ----------------------------
(* Trace validation of the value ledger (C02, C03): every line of trace.ndjson is the  *)
(* projection of the real application's committed state after InitChain ("Init") or    *)
(* after a block ("Block"), with the block's meta data.  TLC evaluates the properties  *)
(* of module Ledger on every pair of consecutive states.  A violated property is        *)
(* printed (PROPERTY-VIOLATED ...) and validation continues, so that the rest of the    *)
(* trace is still checked.                                                              *)
EXTENDS Ledger, Json

Trace == ndJsonDeserialize("trace.ndjson")

VARIABLES l, cur, nviol, pbad

tvars == <<hold, prev, meta, n, l, cur, nviol, pbad>>

Ev == Trace[l]

MetaOf(e) == [signed |-> ToSet(e.signed), guilty |-> ToSet(e.guilty), allow |-> e.allow, eoa |-> ToSet(e.eoa)]

Report(name, ok) ==
  IF ok THEN 0 ELSE IF PrintT(<<"PROPERTY-VIOLATED", name, "line", l, "trace", Ev.t, "h", Ev.h>>) THEN 1 ELSE 1

TraceInit == /\ l = 1 /\ cur = 0 /\ nviol = 0 /\ n = 0 /\ pbad = {}
             /\ hold = <<>> /\ prev = <<>> /\ meta = NoMeta

(* first line of a trace: the state after InitChain *)
TraceStart ==
  /\ l <= Len(Trace) /\ Ev.ev = "Init"
  /\ cur' = Ev.t /\ l' = l + 1 /\ n' = 0
  /\ hold' = Ev.hold /\ prev' = Ev.hold /\ meta' = MetaOf(Ev)
  /\ pbad' = ToSet(Ev.bad)
  /\ nviol' = nviol + Report("NoNegative", NoNegative(Ev.hold, Ev.bad))

(* a record that is negative (or absurdly large) is reported in the block in which it *)
(* becomes so, not again in every later block                                          *)
NewlyBad(pb, h, bad) == (ToSet(bad) \ pb) \cup {i \in 1..Len(h) : h[i].v < 0 /\ ToSet(bad) = {}}

TraceBlock ==
  /\ l <= Len(Trace) /\ Ev.ev = "Block" /\ Ev.t = cur
  /\ l' = l + 1 /\ cur' = cur /\ n' = n + 1
  /\ prev' = hold /\ hold' = Ev.hold /\ meta' = MetaOf(Ev) /\ pbad' = ToSet(Ev.bad)
  /\ nviol' = nviol + Report("NoCreation", NoCreation(hold, Ev.hold, MetaOf(Ev)))
                    + Report("NoNegative", NewlyBad(pbad, Ev.hold, Ev.bad) = {})
                    + Report("NoUnauthorisedDebit", NoUnauthorisedDebit(hold, Ev.hold, MetaOf(Ev)))

TraceNext == TraceStart \/ TraceBlock
TraceSpec == TraceInit /\ [][TraceNext]_tvars

TraceAccepted ==
  LET d == TLCGet("stats").diameter
      want == Len(Trace) + 1
  IN IF d = want THEN TRUE ELSE Print(<<"TRACE-REJECTED matched-states", d, "of", want>>, FALSE)
=============================================================================
