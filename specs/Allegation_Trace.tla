--------------------------- MODULE Allegation_Trace ---------------------------
(* Trace validation of allegations (C19).  Every line is one block of the real application: *)
(* the requests, active flags, frozen records, evidence options and stake totals before the  *)
(* block, the accepted allegation / vote / release / staking transactions in delivery order, *)
(* the number of validators elected at this block end, the verdicts announced by the block-  *)
(* end events, and the records afterwards.  TLC applies the transactions with the guards and *)
(* effects of module Allegation, re-computes the tally with exact rationals, and compares.   *)
EXTENDS Allegation, Json, SequencesExt

Trace == ndJsonDeserialize("trace.ndjson")
VARIABLES l, nviol, tcur, fz            \* fz[v]: for how many consecutive blocks of this history v has been frozen as guilty
tvars == <<l, nviol, tcur, fz, lvars>>
Ev == Trace[l]

Report(name, ok) ==
  IF ok THEN 0 ELSE IF PrintT(<<"PROPERTY-VIOLATED", name, "line", l, "trace", Ev.t, "h", Ev.h>>) THEN 1 ELSE 1

Pre(e) == [req |-> e.reqPre, active |-> ToSet(e.active), frozen |-> e.frozen]

RECURSIVE Fold(_, _, _, _)
Fold(s, txs, i, bad) ==
  IF i > Len(txs) THEN [s |-> s, bad |-> bad]
  ELSE LET x == txs[i] IN
    CASE x.k = "ALLEGATION" -> Fold(DoAllege(s, x.by, x.id, x.accused), txs, i + 1,
                                    IF CanAllege(s, x.by, x.id, x.accused) THEN bad ELSE bad \cup {"allege"})
      [] x.k = "VOTE" -> IF x.id \in DOMAIN s.req
                         THEN Fold(DoVote(s, x.by, x.id, x.choice), txs, i + 1, IF CanVote(s, x.by, x.id, x.choice) THEN bad ELSE bad \cup {"vote"})
                         ELSE Fold(s, txs, i + 1, bad \cup {"vote"})
      [] x.k = "RELEASE" -> Fold(IF x.v \in DOMAIN s.frozen THEN DoRelease(s, x.v) ELSE s, txs, i + 1,
                                 IF CanRelease(s, x.v, Ev.secs, Ev.releaseDays) THEN bad ELSE bad \cup {"release"})
      [] x.k \in {"STAKE", "UNSTAKE", "WITHDRAW"} -> Fold(s, txs, i + 1, IF x.v \in DOMAIN s.frozen THEN bad \cup {"frozenStaking"} ELSE bad)
      [] OTHER -> Fold(s, txs, i + 1, bad)

GuiltyOnes == {v \in DOMAIN Ev.verdicts : Ev.verdicts[v] = "guilty"}
StakeAtTally(v) == Get(Ev.stakePre, v) + Get(Ev.stakeDelta, v)
RECURSIVE SumPen(_)
SumPen(S) == IF S = {} THEN 0 ELSE LET v == CHOOSE x \in S : TRUE IN Penalty(StakeAtTally(v), Ev.penaltyPct) + SumPen(S \ {v})

FzNext == [v \in DOMAIN Ev.frozen |-> IF Ev.frozen[v].status = 2
                                       THEN (IF Ev.t = tcur /\ v \in DOMAIN fz THEN fz[v] + 1 ELSE 1) ELSE 0]
TraceInit == l = 1 /\ nviol = 0 /\ tcur = 0 /\ fz = <<>> /\ AInit
TraceBlock ==
  /\ l <= Len(Trace) /\ l' = l + 1 /\ UNCHANGED lvars
  /\ tcur' = Ev.t /\ fz' = FzNext
  /\ LET f == Fold(Pre(Ev), Ev.txs, 1, {})
         s == f.s
         need == Required(Ev.activeCount, Ev.votePct)
         (* the requests that were decided: they existed at block end and are gone afterwards *)
         gone == DOMAIN s.req \ DOMAIN Ev.reqPost
         ReqOf(v) == {id \in DOMAIN s.req : s.req[id].accused = v}
     IN nviol' = nviol
          + Report("OutsidersCannotActOrVote.allegation", "allege" \notin f.bad)
          + Report("OneVotePerActiveValidator", "vote" \notin f.bad /\ Ev.dupVotes = <<>>)
          + Report("ReleaseOnlyAfterTime", "release" \notin f.bad)
          + Report("FrozenCannotStakeUnstakeWithdraw", "frozenStaking" \notin f.bad)
          + Report("VerdictOnlyAboveShare.guilty",
                   \A v \in GuiltyOnes : \E id \in ReqOf(v) : Guilty(s.req[id].votes, need, Ev.allegPct))
          + Report("VerdictOnlyAboveShare.innocent",
                   \A v \in DOMAIN Ev.verdicts \ GuiltyOnes : \E id \in ReqOf(v) : Innocent(s.req[id].votes, need, Ev.allegPct))
          + Report("VerdictOnlyAboveShare.undecidedStay",
                   \* a request disappears only with a verdict on its accused, or as the duplicate of a request that stays
                   \A id \in gone : \/ s.req[id].accused \in DOMAIN Ev.verdicts
                                     \/ \E j \in DOMAIN Ev.reqPost : Ev.reqPost[j].accused = s.req[id].accused)
          + Report("GuiltyIsFrozen", \A v \in GuiltyOnes : v \in DOMAIN Ev.newFrozen /\ Ev.newFrozen[v] = 2)
          + Report("GuiltyLeavesTheSet", \A v \in DOMAIN FzNext : FzNext[v] >= 4 => v \notin ToSet(Ev.active))
          + Report("PenaltyExact", \A v \in GuiltyOnes : Get(Ev.stakePost, v) = StakeAtTally(v) - Penalty(StakeAtTally(v), Ev.penaltyPct))
          + Report("BountyBounded", Ev.bountyPost - Ev.bountyPre - Ev.bountyIn <= SumPen(GuiltyOnes) * Ev.base
                                    /\ Ev.bountyPost - Ev.bountyPre - Ev.bountyIn = (SumPen(GuiltyOnes) * Ev.base * Ev.bountyPct) \div 100)
TraceSpec == TraceInit /\ [][TraceBlock]_tvars
TraceAccepted ==
  LET d == TLCGet("stats").diameter want == Len(Trace) + 1
  IN IF d = want THEN TRUE ELSE Print(<<"TRACE-REJECTED matched-states", d, "of", want>>, FALSE)
=============================================================================
