----------------------------- MODULE Rewards_Trace -----------------------------
(* Trace validation of block rewards (C13).  Every line is one block of the real application  *)
(* (run with restarts of the node at seeded heights): the block times so far, the reward        *)
(* options, the close times of the reward years, the rewards pool, the previous block's votes,  *)
(* what the block_rewards event says each validator was credited, the accepted reward           *)
(* withdrawals and the reward records after the block.  TLC computes the block's amount with    *)
(* Amount/Pulled of module Rewards - a function of data fixed when the calculation cycle began, *)
(* so the same whether or not the node was restarted inside the cycle - and the shares, chunks, *)
(* matured balances and year bookkeeping with DoBlock, and compares.                            *)
EXTENDS Rewards, Json, SequencesExt

Trace == ndJsonDeserialize("trace.ndjson")

VARIABLES l, st, cur, nviol
tvars == <<rs, hh, times, cached, pool, l, st, cur, nviol>>
Ev == Trace[l]

Report(name, ok) ==
  IF ok THEN 0 ELSE IF PrintT(<<"PROPERTY-VIOLATED", name, "line", l, "trace", Ev.t, "h", Ev.h>>) THEN 1 ELSE 1

Eq1(f, g) == \A k \in DOMAIN f \cup DOMAIN g : Get(f, k) = Get(g, k)
Keys2(f) == UNION {{<<a, b>> : b \in DOMAIN f[a]} : a \in DOMAIN f}
Eq2(f, g) == \A p \in Keys2(f) \cup Keys2(g) : Get2(f, p[1], p[2]) = Get2(g, p[1], p[2])
Logged(e) == [years |-> e.s.years, total |-> e.s.total, chunk |-> e.s.chunk, matured |-> e.s.matured, withdrawn |-> e.s.withdrawn]
E == [h |-> Ev.h, times |-> Ev.times, cycle |-> Ev.cycle, est |-> Ev.est, window |-> Ev.window, shares |-> Ev.shares, closes |-> Ev.closes,
      burnout |-> Ev.burnout, interval |-> Ev.interval, pool |-> Ev.pool, votes |-> Ev.votes, deleg |-> Ev.deleg]
(* the years exist from the first block on *)
Years0(s) == IF Len(s.years) = 0 THEN [i \in 1..Len(Ev.closes) |-> [till |-> 0, dist |-> 0]] ELSE s.years

RECURSIVE FoldW(_, _, _, _)
FoldW(s, txs, i, bad) ==
  IF i > Len(txs) THEN [s |-> s, bad |-> bad]
  ELSE LET x == txs[i] IN
       IF x.k = "WITHDRAW" THEN FoldW(DoWithdraw(s, x.v, x.a), txs, i + 1, IF CanWithdraw(s, x.v, x.a) THEN bad ELSE bad \cup {"withdraw"})
       ELSE FoldW(s, txs, i + 1, bad)
SumWithdrawn == SumSeq([i \in 1..Len(Ev.txs) |-> IF Ev.txs[i].k = "WITHDRAW" THEN Ev.txs[i].a ELSE 0], 1)

Idle == UNCHANGED <<rs, hh, times, cached, pool>>
TraceInit == RInit /\ l = 1 /\ cur = 0 /\ nviol = 0 /\ st = [years |-> <<>>, total |-> 0, chunk |-> <<>>, matured |-> <<>>, withdrawn |-> <<>>]

TraceStart ==
  /\ l <= Len(Trace) /\ Ev.ev = "Init" /\ l' = l + 1 /\ cur' = Ev.t /\ Idle /\ st' = Logged(Ev) /\ nviol' = nviol

TraceBlock ==
  /\ l <= Len(Trace) /\ Ev.ev = "Block" /\ Ev.t = cur /\ l' = l + 1 /\ cur' = cur /\ Idle
  /\ LET s0 == [st EXCEPT !.years = Years0(st)]
         e == E
         exhausted == Exhausted(e, s0.years)
         b == DoBlock(s0, e)
         f == FoldW(b, Ev.txs, 1, {})
         c == f.s
         lg == Logged(Ev)
         credited == [i \in 1..Len(e.votes) |-> IF exhausted THEN 0 ELSE Credit(e, s0.years, i)]
         crediting == [i \in 1..Len(e.votes) |-> Get(Ev.credited, e.votes[i].v)]
     IN /\ st' = lg
        /\ nviol' = nviol
             + Report("CreditedWithinPulled", exhausted \/ SumSeq(crediting, 1) <= Pulled(e, s0.years))
             + Report("PulledWithinYearSupply", exhausted \/ (WithinYear(e, s0.years) /\ WithinPool(e, s0.years)))
             + Report(IF Ev.restart THEN "AmountIndependentOfRestart" ELSE "CreditsAsComputed", \A i \in 1..Len(e.votes) : crediting[i] = credited[i])
             + Report("NoRewardWhenYearExhausted", exhausted => (Ev.noEvent /\ Ev.credited = <<>>))
             + Report("AcceptedWithdrawWithinMatured", "withdraw" \notin f.bad)
             + Report("YearBookkeeping.exact", c.years = lg.years /\ c.total = lg.total)
             + Report("Chunks.exact", Eq2(c.chunk, lg.chunk))
             + Report("Matured.exact", Eq1(c.matured, lg.matured))
             + Report("Withdrawn.exact", Eq1(c.withdrawn, lg.withdrawn))
             + Report("PoolPaysWithdrawals", Ev.poolPost <= Ev.pool - SumWithdrawn \/ Ev.poolPost >= Ev.pool)
             + Report("NeverMoreThanEarned", NeverMoreThanEarned(lg))

TraceNext == TraceStart \/ TraceBlock
TraceSpec == TraceInit /\ [][TraceNext]_tvars

TraceAccepted ==
  LET d == TLCGet("stats").diameter
      want == Len(Trace) + 1
  IN IF d = want THEN TRUE ELSE Print(<<"TRACE-REJECTED matched-states", d, "of", want>>, FALSE)
=============================================================================
