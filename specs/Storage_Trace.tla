--------------------------- MODULE Storage_Trace ---------------------------
(* Trace validation for Storage: every line of trace.ndjson is one operation that *)
(* the real store executed (name, arguments, observed result).  A line is matched *)
(* by the Storage action of that name with those arguments whose result equals    *)
(* the observed one.  Traces are concatenated; field t numbers them and TraceReset *)
(* re-initialises the store state when t changes.                                  *)
EXTENDS Storage, Json

Trace == ndJsonDeserialize("trace.ndjson")

VARIABLES l, cur

tvars == <<vars, l, cur>>

TraceInit == Init /\ l = 1 /\ cur = IF Len(Trace) > 0 THEN Trace[1].t ELSE 0

Ev == Trace[l]
Ready == l <= Len(Trace) /\ Ev.t = cur
Consume == l' = l + 1 /\ cur' = cur

ToVer(s) == CHOOSE n \in 1..MaxCommits : ToString(n) = s

TraceStep ==
  /\ Ready /\ Consume
  /\ \/ Ev.n = "Set" /\ Set(Ev.k, Ev.v)
     \/ Ev.n = "Delete" /\ Delete(Ev.k)
     \/ Ev.n = "Get" /\ Get(Ev.k)
     \/ Ev.n = "Exists" /\ Exists(Ev.k)
     \/ Ev.n = "Iter" /\ Iter /\ op'.it = Ev.it
     \/ Ev.n = "Begin" /\ Begin
     \/ Ev.n = "Discard" /\ Discard
     \/ Ev.n = "CommitS" /\ CommitS
     \/ Ev.n = "Write" /\ WriteOnly
     \/ Ev.n = "BlockCommit" /\ BlockCommit /\ Ev.fh = TRUE
     \/ Ev.n = "Reopen" /\ Reopen
     \/ Ev.n = "GetVer" /\ GetVer(ToVer(Ev.v), Ev.k)
  /\ op'.r = Ev.r

TraceReset ==
  /\ l <= Len(Trace) /\ Ev.t # cur
  /\ cur' = Ev.t /\ l' = l
  /\ tree' = EmptyTree /\ vers' = <<>> /\ live' = {}
  /\ cmap' = EmptyMap /\ corder' = <<>> /\ sess' = FALSE /\ smap' = EmptyMap /\ sorder' = <<>>
  /\ pend' = <<>> /\ wlog' = <<>> /\ steps' = 0
  /\ op' = [n |-> "reset", k |-> "", v |-> "", r |-> "", it |-> NoIter]

TraceNext == TraceStep \/ TraceReset
TraceSpec == TraceInit /\ [][TraceNext]_tvars

Resets == Cardinality({i \in 2..Len(Trace) : Trace[i].t # Trace[i - 1].t})
(* the behaviour is linear: one state per consumed line, one per reset, plus the first *)
TraceAccepted ==
  LET d == TLCGet("stats").diameter
      want == Len(Trace) + Resets + 1
  IN IF d = want THEN TRUE
     ELSE Print(<<"TRACE-REJECTED matched-states", d, "of", want>>, FALSE)
=============================================================================
