------------------------------ MODULE Fees_Ind ------------------------------
(* Inductive form of the fee pool's conservation argument (module Fees), for Apalache:   *)
(* IndInv holds initially and is preserved by every step, for ANY balances, pool, shares  *)
(* and powers (unbounded integers), with two payers and three validator records.          *)
(*   apalache-mc check --cinit=CInitOk --init=IndInit --inv=IndInv --length=1   (step)      *)
(*   apalache-mc check --cinit=CInitOk --init=Init    --inv=IndInv --length=0   (base)      *)
(*   with --cinit=CInitDev (shares rounded up) the step must fail: vacuity control          *)
EXTENDS Integers, FiniteSets

Payers == {"a1", "a2"}
Validators == {"v1", "v2", "v3"}

CONSTANT
  \* @type: Bool;
  CeilShares   \* the deviation of module Fees: shares rounded up
CInitOk == CeilShares = FALSE
CInitDev == CeilShares = TRUE

VARIABLES
  \* @type: Str -> Int;
  bal,
  \* @type: Int;
  pool,
  \* @type: Str -> Int;
  share,
  \* @type: Str -> Int;
  power,
  \* @type: Int;
  total,
  \* @type: Int;
  minFee

\* @type: (Str -> Int) => Int;
SumP(f) == f["a1"] + f["a2"]
\* @type: (Str -> Int) => Int;
SumV(f) == f["v1"] + f["v2"] + f["v3"]

Init == /\ bal \in [Payers -> 0..100] /\ pool = 0 /\ share = [v \in Validators |-> 0]
        /\ power \in [Validators -> 0..5] /\ total = SumP(bal) /\ minFee \in 0..10

Pay == \E p \in Payers : \E f \in Int :
         /\ f >= 0 /\ bal[p] >= f
         /\ bal' = [bal EXCEPT ![p] = @ - f] /\ pool' = pool + f
         /\ UNCHANGED <<share, power, total, minFee>>

EndBlock ==
  /\ UNCHANGED <<bal, total, minFee>>
  /\ LET tp == SumV(power) IN
     IF pool > minFee /\ tp > 0
     THEN LET inc == [v \in Validators |-> IF CeilShares THEN (pool * power[v] + tp - 1) \div tp ELSE (pool * power[v]) \div tp] IN
          /\ share' = [v \in Validators |-> share[v] + inc[v]]
          /\ pool' = pool - SumV(inc)
     ELSE share' = share /\ pool' = pool
  /\ power' \in [Validators -> Nat]

Next == Pay \/ EndBlock

TypeOK == /\ bal \in [Payers -> Int] /\ pool \in Int /\ share \in [Validators -> Int] /\ power \in [Validators -> Int]
          /\ total \in Int /\ minFee \in Int
IndInv == /\ TypeOK
          /\ \A p \in Payers : bal[p] >= 0
          /\ \A v \in Validators : share[v] >= 0 /\ power[v] >= 0
          /\ pool >= 0 /\ minFee >= 0
          /\ SumP(bal) + pool + SumV(share) = total
IndInit == IndInv
=============================================================================
