---------------------------- MODULE Storage_Gen ----------------------------
(* Behaviour export for Storage: prints one JSON edge per explored transition *)
(* of the quotient graph (state = core, without the step counter).            *)
EXTENDS Storage, Json

GenView == core

Batch == IF op'.n = "BlockCommit" THEN wlog'[Len(wlog')] ELSE <<>>

Emit == PrintT(<<"EDGE", ToJson([s |-> core, o |-> op', d |-> core', b |-> Batch])>>)
=============================================================================
