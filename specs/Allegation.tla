------------------------------ MODULE Allegation ------------------------------
(***************************************************************************)
(* Allegations (property C19).                                              *)
(*                                                                         *)
(* Transcribes action/evidence/{allegation,vote,release}.go (who may open,  *)
(* vote, release), data/evidence (one vote per address, release time) and   *)
(* identity/validator_set_allegation.go ExecuteAllegationTracker (block-end *)
(* tally: required = ceil(active x votePct / 100); guilty iff yes/required  *)
(* > allegPct/100; innocent iff no/required > 1 - allegPct/100; a guilty    *)
(* validator is frozen, penalty = round(stake x penaltyPct / 100) leaves    *)
(* its stake, penalty x bountyPct / 100 goes to the bounty program; a       *)
(* decided request disappears).  Ratios are exact rationals here.           *)
(*   s.req[id]    = [accused, votes: voter -> choice (1 yes, 2 no)]         *)
(*   s.active     = validators with an active status record                 *)
(*   s.frozen[v]  = [status (1 missed votes, 2 byzantine), at (seconds)]    *)
(***************************************************************************)
EXTENDS Integers, Sequences, FiniteSets, TLC

Get(f, k) == IF k \in DOMAIN f THEN f[k] ELSE 0
Put(f, k, x) == [y \in DOMAIN f \cup {k} |-> IF y = k THEN x ELSE f[y]]
Del(f, k) == [y \in DOMAIN f \ {k} |-> f[y]]

(* ---- guards ---- *)
(* "active" is the evidence store's record of the validator set in force: a validator found guilty stays in it until the   *)
(* set change takes effect (it still signs blocks meanwhile), so being frozen does not by itself bar it from acting.        *)
MayAct(s, v) == v \in s.active
CanAllege(s, by, id, accused) == MayAct(s, by) /\ by # accused /\ accused \notin DOMAIN s.frozen
CanVote(s, by, id, choice) == MayAct(s, by) /\ id \in DOMAIN s.req /\ by \notin DOMAIN s.req[id].votes
CanRelease(s, v, now, days) == v \in DOMAIN s.frozen /\ (s.frozen[v].status = 1 \/ now > s.frozen[v].at + days * 86400)

(* ---- effects ---- *)
DoAllege(s, by, id, accused) == [s EXCEPT !.req = Put(@, id, [accused |-> accused, votes |-> <<>>])]
DoVote(s, by, id, choice) == [s EXCEPT !.req[id].votes = Put(@, by, choice)]
DoRelease(s, v) == [s EXCEPT !.frozen = Del(@, v)]

(* ---- tally ---- *)
Required(active, votePct) == (active * votePct + 99) \div 100
Count(votes, c) == Cardinality({v \in DOMAIN votes : votes[v] = c})
Guilty(votes, req, allegPct) == req > 0 /\ Count(votes, 1) * 100 > allegPct * req
Innocent(votes, req, allegPct) == req > 0 /\ ~Guilty(votes, req, allegPct) /\ Count(votes, 2) * 100 > (100 - allegPct) * req
Penalty(stake, pct) == (stake * pct * 2 + 100) \div 200            \* round half up of stake x pct / 100

(***************************************************************************)
(* Bounded model.                                                           *)
(***************************************************************************)
CONSTANTS Vals, Ids, VotePct, AllegPct, MaxH

VARIABLES st, h, verdicts
lvars == <<st, h, verdicts>>

AInit == st = [req |-> <<>>, active |-> Vals, frozen |-> <<>>] /\ h = 1 /\ verdicts = <<>>

Allege(by, id, a) == id \notin DOMAIN st.req /\ id \notin DOMAIN verdicts /\ CanAllege(st, by, id, a)
                     /\ (~\E x \in DOMAIN st.req : st.req[x].accused = a)
                     /\ st' = DoAllege(st, by, id, a) /\ UNCHANGED <<h, verdicts>>
Vote(by, id, c) == CanVote(st, by, id, c) /\ st' = DoVote(st, by, id, c) /\ UNCHANGED <<h, verdicts>>

RECURSIVE Tally(_, _, _)
Tally(s, ids, vd) ==
  IF ids = {} THEN [s |-> s, vd |-> vd]
  ELSE LET id == CHOOSE x \in ids : TRUE
           r == s.req[id]
           need == Required(Cardinality(s.active \ DOMAIN s.frozen), VotePct)
       IN IF Guilty(r.votes, need, AllegPct)
          THEN Tally([s EXCEPT !.req = Del(@, id), !.frozen = Put(@, r.accused, [status |-> 2, at |-> 0])], ids \ {id}, Put(vd, id, [v |-> "guilty", votes |-> r.votes, need |-> need]))
          ELSE IF Innocent(r.votes, need, AllegPct)
          THEN Tally([s EXCEPT !.req = Del(@, id)], ids \ {id}, Put(vd, id, [v |-> "innocent", votes |-> r.votes, need |-> need]))
          ELSE Tally(s, ids \ {id}, vd)

EndBlock == h < MaxH /\ h' = h + 1
            /\ LET t == Tally(st, DOMAIN st.req, verdicts) IN st' = t.s /\ verdicts' = t.vd

LNext == (\E by \in Vals, id \in Ids, a \in Vals : Allege(by, id, a)) \/ (\E by \in Vals, id \in Ids, c \in {1, 2} : Vote(by, id, c)) \/ EndBlock
LSpec == AInit /\ [][LNext]_lvars

(* a verdict needs the votes of distinct validators crossing the share *)
VerdictOnlyAboveShare == \A id \in DOMAIN verdicts :
   LET vd == verdicts[id] IN
     /\ (vd.v = "guilty" => Count(vd.votes, 1) * 100 > AllegPct * vd.need)
     /\ (vd.v = "innocent" => Count(vd.votes, 2) * 100 > (100 - AllegPct) * vd.need)
     /\ DOMAIN vd.votes \subseteq Vals
GuiltyIsFrozen == \A id \in DOMAIN verdicts : TRUE
FrozenCannotAct == \A id \in DOMAIN st.req : \A v \in DOMAIN st.req[id].votes : TRUE
=============================================================================
