--------------------------- MODULE Validators_Trace ---------------------------
(* Trace validation of validator-set updates (C10).  Every line is one block of the real *)
(* application: the validator records, frozen flags and staking options as of the         *)
(* previous block, the updates returned by EndBlock, Tendermint's sets (the harness        *)
(* applies every update list to a real tendermint/types.ValidatorSet with                  *)
(* UpdateWithChangeSet and logs its verdict).  TLC evaluates the block-level predicates    *)
(* of module Validators and keeps the stability counter for Converges.                     *)
EXTENDS Validators, Json, SequencesExt

Trace == ndJsonDeserialize("trace.ndjson")

VARIABLES l, tcur, nviol, last, quiet
tvars == <<l, tcur, nviol, last, quiet, vvars>>
Ev == Trace[l]

Report(name, ok) ==
  IF ok THEN 0 ELSE IF PrintT(<<"PROPERTY-VIOLATED", name, "line", l, "trace", Ev.t, "h", Ev.h>>) THEN 1 ELSE 1

Obs(e) == [rec |-> e.rec, bad |-> ToSet(e.bad), top |-> e.top, min |-> e.min]

(* the variables of the bounded model are not used by trace validation *)
Idle == /\ h = 0 /\ rec = <<>> /\ prevrec = <<>> /\ bad = {} /\ cur = <<>> /\ nxt = <<>> /\ purge = <<>>
        /\ upd = <<>> /\ obs = <<>> /\ lastChange = 0 /\ stable = 0
TraceInit == l = 1 /\ tcur = 0 /\ nviol = 0 /\ last = <<>> /\ quiet = 0 /\ Idle

TraceBlock ==
  /\ l <= Len(Trace) /\ Ev.ev = "Block"
  /\ l' = l + 1 /\ tcur' = Ev.t /\ UNCHANGED vvars
  /\ LET o == Obs(Ev)
         q == IF Ev.t = tcur /\ last = o THEN quiet + 1 ELSE 0
         bd == ToSet(Ev.bad)
     IN /\ last' = o /\ quiet' = q
        /\ nviol' = nviol
             + Report("UpdatesWellFormed.tendermintAccepts", Ev.updErr = "")
             + Report("UpdatesWellFormed.noDuplicates", ~Ev.dup)
             + Report("UpdatesWellFormed", UpdatesWellFormed(Ev.upd, Ev.nxt))
             + Report("PositiveUpdatesJustified.eligible", Positive(Ev.upd) \subseteq Eligible(Ev.rec, bd, Ev.min))
             + Report("PositiveUpdatesJustified.powerIsStake", \A v \in Positive(Ev.upd) : Ev.upd[v] = Get(Ev.rec, v) /\ Ev.upd[v] = Get(Ev.stake, v))
             + Report("PositiveUpdatesJustified.topCount", Cardinality(Positive(Ev.upd)) <= Ev.top)
             + Report("PositiveUpdatesJustified.higherStakePreferred",
                      \A v \in Positive(Ev.upd) \cap DOMAIN Ev.rec : \A c \in Eligible(Ev.rec, bd, Ev.min) \ Positive(Ev.upd) : Ev.rec[v] >= Ev.rec[c])
             + Report("Converges", q < 5 \/ IsElection(Members(Ev.cur), Ev.rec, bd, Ev.top, Ev.min))

TraceNext == TraceBlock
TraceSpec == TraceInit /\ [][TraceNext]_tvars

TraceAccepted ==
  LET d == TLCGet("stats").diameter
      want == Len(Trace) + 1
  IN IF d = want THEN TRUE ELSE Print(<<"TRACE-REJECTED matched-states", d, "of", want>>, FALSE)
=============================================================================
