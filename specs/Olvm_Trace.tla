------------------------------ MODULE Olvm_Trace ------------------------------
(* Trace validation of the OLVM ledger rules (C17).  Every line is the projection of all     *)
(* OLT balances, EVM sequence numbers, the set of addresses carrying code and the fee pool    *)
(* of the real application after InitChain or after a block, with the block's accepted        *)
(* transactions in delivery order - for an OLVM transaction what was signed (sender, target,  *)
(* value, sequence number, gas limit and price, chain id, signing key) and what the           *)
(* application reported (status, gas used, created address, the balance a probe contract      *)
(* logged).  TLC re-computes the block with the operators of module Olvm: every executed      *)
(* transaction must have been allowed to execute, its outcome must be the one its target      *)
(* program has, what a probe read through the EVM must be the ledger's number, and the        *)
(* re-computed balances, sequence numbers, code set and fee pool must equal the logged ones   *)
(* (so a transaction that was not executed changed nothing, and an executed one cost exactly  *)
(* gas used times price plus the value that moved).  The EVM is switched on by a fork at a    *)
(* height fixed in the genesis document (field fork of every block line): no OLVM request     *)
(* is accepted in a block below it (Conf.ExecutedOnlyFromTheFork: the fork rule is the code's, *)
(* not the listed property's - a difference is recorded as a note, not reported as a violation). *)
EXTENDS Olvm, Json, SequencesExt

Trace == ndJsonDeserialize("trace.ndjson")

VARIABLES l, cur, nviol
tvars == <<st, steps, l, cur, nviol>>
Ev == Trace[l]

Report(name, ok) ==
  IF ok THEN 0 ELSE IF PrintT(<<"PROPERTY-VIOLATED", name, "line", l, "trace", Ev.t, "h", Ev.h>>) THEN 1 ELSE 1

Eq1(f, g) == \A k \in DOMAIN f \cup DOMAIN g : Get(f, k) = Get(g, k)
Coded(s) == {c \in DOMAIN s.kind : s.kind[c] # ""}

RECURSIVE Fold(_, _, _, _)
Fold(s, txs, i, bad) ==
  IF i > Len(txs) THEN [s |-> s, bad |-> bad]
  ELSE LET x == txs[i] IN
    CASE x.k = "OLVM" ->
           LET b1 == IF CanExecute(s, x) THEN bad ELSE bad \cup {"execute"}
               b2 == IF OutcomeAsProgram(s, x) THEN b1 ELSE b1 \cup {"outcome"}
               b3 == IF ProbeSees(s, x) THEN b2 ELSE b2 \cup {"probe"}
           IN Fold(DoExecute(s, x), txs, i + 1, b3)
      [] x.k = "SEND" -> Fold(DoSend(DoFee(s, x.payer, x.fee), x), txs, i + 1, bad)
      [] OTHER -> Fold(s, txs, i + 1, bad)

TraceInit == st = [bal |-> <<>>, nonce |-> <<>>, kind |-> <<>>, pool |-> 0] /\ steps = 0 /\ l = 1 /\ cur = 0 /\ nviol = 0

TraceStart ==
  /\ l <= Len(Trace) /\ Ev.ev = "Init"
  /\ l' = l + 1 /\ cur' = Ev.t /\ steps' = steps /\ nviol' = nviol
  /\ st' = [bal |-> Ev.s.bal, nonce |-> Ev.s.nonce, kind |-> <<>>, pool |-> Ev.s.pool]

TraceBlock ==
  /\ l <= Len(Trace) /\ Ev.ev = "Block" /\ Ev.t = cur
  /\ l' = l + 1 /\ cur' = cur /\ steps' = steps
  /\ LET f == Fold(st, Ev.txs, 1, {})
         c == f.s
         known == Ev.other = <<>>
     IN /\ st' = [bal |-> Ev.s.bal, nonce |-> Ev.s.nonce, kind |-> c.kind, pool |-> Ev.s.pool]
        /\ nviol' = nviol
             + Report("ExecutedOnlyIfAllowed", "execute" \notin f.bad)
             + Report("Conf.ExecutedOnlyFromTheFork", \A i \in 1..Len(Ev.txs) : Ev.txs[i].k = "OLVM" => Ev.h >= Ev.fork)
             + Report("OutcomeAsProgram", "outcome" \notin f.bad)
             + Report("EvmReadsTheLedger", "probe" \notin f.bad)
             + Report("Balances.exact", ~known \/ Eq1(c.bal, Ev.s.bal))
             + Report("FeePool.exact", ~known \/ c.pool = Ev.s.pool)
             + Report("Nonces.exact", Eq1(c.nonce, Ev.s.nonce))
             + Report("Code.exact", Coded(c) = ToSet(Ev.s.coded))
             + Report("NonNegative", NonNegative([bal |-> Ev.s.bal, pool |-> Ev.s.pool]))

TraceNext == TraceStart \/ TraceBlock
TraceSpec == TraceInit /\ [][TraceNext]_tvars

TraceAccepted ==
  LET d == TLCGet("stats").diameter
      want == Len(Trace) + 1
  IN IF d = want THEN TRUE ELSE Print(<<"TRACE-REJECTED matched-states", d, "of", want>>, FALSE)
=============================================================================
