------------------------------- MODULE Ledger -------------------------------
(***************************************************************************)
(* The value ledger of the chain (properties C02 and C03).                 *)
(*                                                                         *)
(* State: hold, a sequence of entries [o, c, cat, v]: owner o holds v      *)
(* units of currency c in category cat.  Categories (projection of the     *)
(* committed tree, see harness/vapp/ledger.go):                            *)
(*   bal        b_<addr>_<cur>            account and pool balances        *)
(*   feePool    f_00000000000000000000    fee pool                         *)
(*   feeShare   f_<addr>                  fee shares of validators         *)
(*   stLocked   st__e_<v>_<d>   x base    effective stake of a delegator   *)
(*   stUnlock   st__m_<h>       x base    unstaked, maturing               *)
(*   stFree     st__d_b_<d>     x base    matured, withdrawable            *)
(*   delegated  deleg_a_<d>               active network delegation        *)
(*                                         (mirror of the pool's balance:  *)
(*                                         in Own, not in Total)           *)
(*   undeleg    deleg_p_<h>_<d>           undelegated, maturing            *)
(*   rwClaim    delegRwz_balance_<d>      delegation reward claim          *)
(*   rwPend     delegRwz_pending_<h>_<d>  reward withdrawal, maturing      *)
(*   propFund   propFunds_i_<id>_<a>      proposal contributions           *)
(*   escrow     bid escrow                                                  *)
(*                                                                         *)
(* A block step is described by meta: the accounts that validly signed a   *)
(* transaction included in the block (and the stake accounts of validators *)
(* that did), the stake accounts of validators found guilty in the block,  *)
(* and the allowance per currency (delegation reward accrual reported by   *)
(* the block's reward event; confirmed locks / failed-redeem refunds of    *)
(* wrapped currencies).                                                     *)
(*                                                                         *)
(* The module states the properties as predicates over (prev, hold, meta)  *)
(* so that they can be evaluated both on the abstract machine below (model *)
(* checking: the design of "every credit is paired with a debit") and on   *)
(* the projected states of the real application (Ledger_Trace).            *)
(***************************************************************************)
EXTENDS Integers, Sequences, FiniteSets, SequencesExt, TLC

TotalCats == {"bal", "feePool", "feeShare", "stLocked", "stUnlock", "stFree",
              "undeleg", "rwClaim", "rwPend", "propFund", "escrow"}
OwnCats   == {"bal", "stLocked", "stUnlock", "stFree", "delegated", "undeleg", "rwClaim", "rwPend"}

RECURSIVE SumSel(_, _, _, _, _)
(* sum of v over entries i..Len(h) with currency c, category in cats and owner in owners ("*" = any) *)
SumSel(h, i, c, cats, o) ==
  IF i > Len(h) THEN 0
  ELSE (IF h[i].c = c /\ h[i].cat \in cats /\ (o = "*" \/ h[i].o = o) THEN h[i].v ELSE 0)
       + SumSel(h, i + 1, c, cats, o)

Total(h, c) == SumSel(h, 1, c, TotalCats, "*")
Own(h, o, c) == SumSel(h, 1, c, OwnCats, o)

Currencies(h) == {h[i].c : i \in 1..Len(h)}
Owners(h) == {h[i].o : i \in 1..Len(h)}

AllowOf(meta, c) == IF c \in DOMAIN meta.allow THEN meta.allow[c] ELSE 0

(* C02: the total of every currency does not grow beyond the block's allowance *)
NoCreation(prev, h, meta) ==
  \A c \in Currencies(prev) \cup Currencies(h) : Total(h, c) <= Total(prev, c) + AllowOf(meta, c)

(* C02: no stored amount is negative (or beyond every possible supply) *)
NoNegative(h, bad) == bad = <<>> /\ \A i \in 1..Len(h) : h[i].v >= 0

(* C03: the holdings of an externally owned account decrease only if it signed *)
NoUnauthorisedDebit(prev, h, meta) ==
  \A o \in (Owners(prev) \cup Owners(h)) \cap meta.eoa :
    \A c \in Currencies(prev) \cup Currencies(h) :
      Own(h, o, c) < Own(prev, o, c) => o \in meta.signed \cup meta.guilty

(***************************************************************************)
(* Abstract machine (for model checking the design argument).  Owners and  *)
(* amounts are small; every action is a paired debit/credit.               *)
(***************************************************************************)
CONSTANTS Accts, Pools, MaxAmt, MaxN, Deviations

VARIABLES hold, prev, meta, n

lvars == <<hold, prev, meta, n>>

Cur == "OLT"
Entry(o, cat, v) == [o |-> o, c |-> Cur, cat |-> cat, v |-> v]

Idx(o, cat) == CHOOSE i \in 1..Len(hold) : hold[i].o = o /\ hold[i].cat = cat
Val(o, cat) == hold[Idx(o, cat)].v
Upd(h, o, cat, d) == [i \in 1..Len(h) |-> IF h[i].o = o /\ h[i].cat = cat THEN [h[i] EXCEPT !.v = @ + d] ELSE h[i]]

AllOwners == Accts \cup Pools
AbsCats == {"bal", "stLocked", "stUnlock", "stFree", "delegated", "undeleg", "rwClaim", "feePool"}
MoveCats == {"bal", "stLocked", "stUnlock", "feePool"}
Pairs == AllOwners \X AbsCats
PairSeq == SetToSeq(Pairs)

NoMeta == [signed |-> {}, guilty |-> {}, allow |-> [c \in {Cur} |-> 0], eoa |-> Accts]

LInit == /\ hold = [i \in 1..Cardinality(Pairs) |->
                      Entry(PairSeq[i][1], PairSeq[i][2], IF PairSeq[i][2] = "bal" THEN MaxAmt ELSE 0)]
         /\ prev = hold /\ meta = NoMeta /\ n = 0

Step(h2, m) == /\ prev' = hold /\ hold' = h2 /\ meta' = m /\ n' = n + 1

(* a signed move of a units from (o1, c1) to (o2, c2): transfer, stake, delegate, fee ... *)
Move(s, o1, c1, o2, c2, a) ==
  /\ a \in 1..MaxAmt /\ Val(o1, c1) >= a
  /\ c1 # "delegated" /\ c2 # "delegated"          \* the mirror record moves only with the pool (below)
  /\ (o1 \in Accts => s = o1)                       \* debiting an account needs its signature
  /\ Step(Upd(Upd(hold, o1, c1, -a), o2, c2, a), [NoMeta EXCEPT !.signed = {s}])

(* network delegation: the amount goes to the pool's balance and is mirrored in the *)
(* delegator's active record; undelegation moves it to the maturing record           *)
Delegate(o, p, a) ==
  /\ o \in Accts /\ p \in Pools /\ a \in 1..MaxAmt /\ Val(o, "bal") >= a
  /\ Step(Upd(Upd(Upd(hold, o, "bal", -a), p, "bal", a), o, "delegated", a), [NoMeta EXCEPT !.signed = {o}])
Undelegate(o, p, a) ==
  /\ o \in Accts /\ p \in Pools /\ a \in 1..MaxAmt /\ Val(o, "delegated") >= a /\ Val(p, "bal") >= a
  /\ Step(Upd(Upd(Upd(hold, o, "delegated", -a), p, "bal", -a), o, "undeleg", a), [NoMeta EXCEPT !.signed = {o}])

(* block hook: maturity moves inside one owner's records; needs no signature *)
Mature(o, c1, c2) ==
  /\ o \in Accts /\ c1 \in {"stUnlock", "undeleg"}
  /\ c2 = (IF c1 = "stUnlock" THEN "stFree" ELSE "bal")
  /\ Val(o, c1) > 0
  /\ Step(Upd(Upd(hold, o, c1, -Val(o, c1)), o, c2, Val(o, c1)), NoMeta)

(* block hook: delegation reward accrual, reported as the block's allowance *)
Accrue(o, a) == /\ a \in 1..2 /\ o \in Accts
                /\ Step(Upd(hold, o, "rwClaim", a), [NoMeta EXCEPT !.allow = [c \in {Cur} |-> a]])

(* verdict: part of a guilty validator's stake is burned, part goes to a pool *)
Slash(o, a, p) == /\ o \in Accts /\ p \in Pools /\ a \in 1..MaxAmt /\ Val(o, "stLocked") >= a
                  /\ Step(Upd(Upd(hold, o, "stLocked", -a), p, "bal", a \div 2), [NoMeta EXCEPT !.guilty = {o}])

(* deviations: what the properties must catch (used to show the model check is not vacuous) *)
DevMint(o) == "mint" \in Deviations /\ o \in Accts /\ Step(Upd(hold, o, "bal", 1), NoMeta)
DevDebit(o, p) == "debit" \in Deviations /\ o \in Accts /\ Val(o, "bal") >= 1
                  /\ Step(Upd(Upd(hold, o, "bal", -1), p, "bal", 1), [NoMeta EXCEPT !.signed = {p}])

LNext == \/ \E s \in Accts, o1, o2 \in AllOwners, c1, c2 \in MoveCats, a \in 1..MaxAmt : Move(s, o1, c1, o2, c2, a)
         \/ \E o \in Accts, p \in Pools, a \in 1..MaxAmt : Delegate(o, p, a) \/ Undelegate(o, p, a)
         \/ \E o \in Accts, c1, c2 \in AbsCats : Mature(o, c1, c2)
         \/ \E o \in Accts, a \in 1..2 : Accrue(o, a)
         \/ \E o \in Accts, a \in 1..MaxAmt, p \in Pools : Slash(o, a, p)
         \/ \E o \in Accts : DevMint(o)
         \/ \E o \in Accts, p \in AllOwners : DevDebit(o, p)

LSpec == LInit /\ [][LNext]_lvars

InvNoCreation == NoCreation(prev, hold, meta)
InvNoNegative == NoNegative(hold, <<>>)
InvNoUnauthorisedDebit == NoUnauthorisedDebit(prev, hold, meta)
StepBound == n <= MaxN
LView == <<hold, prev, meta>>
=============================================================================
