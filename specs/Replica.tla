------------------------------- MODULE Replica -------------------------------
(***************************************************************************)
(* Replicas of the application fed with the same chain of blocks           *)
(* (properties C01, C06, C07, C08).                                         *)
(*                                                                         *)
(* A replica executes the ABCI call sequence BeginBlock, DeliverTx*,       *)
(* EndBlock, Commit for each block; CheckTx may be called between any two  *)
(* calls; the process may die at any call boundary and is then restarted   *)
(* from its disk.  The result of block h (application hash, validator      *)
(* updates, per-transaction results) is F(h): a function of the chain      *)
(* alone.  The design claim is that nothing else - the node's identity and *)
(* role (local), mempool checks, restarts - influences it.  The places     *)
(* where the implementation could break the claim are named deviations:    *)
(*   "local"   a result depends on the node-local input                     *)
(*   "check"   a CheckTx leaves something behind that a later block reads   *)
(*   "early"   a block's writes reach the disk before Commit                *)
(*   "stale"   a volatile cache survives a restart / is not rebuilt         *)
(*   "failed"  a failed transaction leaves a partial write behind           *)
(* With Deviations = {} TLC shows the invariants hold; each deviation is    *)
(* caught by the invariant it belongs to (vacuity control).  The same       *)
(* invariants are evaluated on transcripts of the real application by       *)
(* Replica_Trace.                                                           *)
(***************************************************************************)
EXTENDS Integers, Sequences, FiniteSets, TLC

CONSTANTS Nodes, MaxH, NTx, FailedTx, Locals, Deviations

VARIABLES phase,   \* node -> "idle" | "open" | "ended" | "down"
          k,       \* node -> transactions delivered in the open block
          height,  \* node -> last committed height (volatile view)
          disk,    \* node -> last height on disk
          log,     \* node -> sequence of block results
          taint,   \* node -> set of marks left behind by deviations, read by later blocks
          dtaint,  \* node -> marks that reached the disk
          local,   \* node -> node-local input
          info     \* node -> what Info reported at the last restart (or -1)

vars == <<phase, k, height, disk, log, taint, dtaint, local, info>>

(* the result of block h as a function of the chain; marks make it differ *)
F(h, marks) == [h |-> h, marks |-> marks]

Init == /\ phase = [n \in Nodes |-> "idle"] /\ k = [n \in Nodes |-> 0]
        /\ height = [n \in Nodes |-> 0] /\ disk = [n \in Nodes |-> 0]
        /\ log = [n \in Nodes |-> <<>>] /\ taint = [n \in Nodes |-> {}] /\ dtaint = [n \in Nodes |-> {}]
        /\ local \in [Nodes -> Locals] /\ info = [n \in Nodes |-> -1]

Begin(n) == /\ phase[n] = "idle" /\ height[n] < MaxH
            /\ phase' = [phase EXCEPT ![n] = "open"] /\ k' = [k EXCEPT ![n] = 0]
            /\ UNCHANGED <<height, disk, log, taint, dtaint, local, info>>

Deliver(n) == /\ phase[n] = "open" /\ k[n] < NTx
              /\ k' = [k EXCEPT ![n] = @ + 1]
              /\ taint' = [taint EXCEPT ![n] =
                   IF "failed" \in Deviations /\ (k[n] + 1) \in FailedTx THEN @ \cup {"partial"} ELSE @]
              /\ UNCHANGED <<phase, height, disk, log, dtaint, local, info>>

End(n) == /\ phase[n] = "open" /\ k[n] = NTx
          /\ phase' = [phase EXCEPT ![n] = "ended"]
          /\ taint' = [taint EXCEPT ![n] = IF "local" \in Deviations THEN @ \cup {local[n]} ELSE @]
          /\ dtaint' = [dtaint EXCEPT ![n] = IF "early" \in Deviations THEN @ \cup {"early"} ELSE @]
          /\ UNCHANGED <<k, height, disk, log, local, info>>

Commit(n) == /\ phase[n] = "ended"
             /\ phase' = [phase EXCEPT ![n] = "idle"]
             /\ height' = [height EXCEPT ![n] = @ + 1] /\ disk' = [disk EXCEPT ![n] = height[n] + 1]
             /\ log' = [log EXCEPT ![n] = Append(@, F(height[n] + 1, taint[n] \cup dtaint[n]))]
             /\ dtaint' = [dtaint EXCEPT ![n] = @ \cup (taint[n] \ {"volatile"})]
             /\ taint' = [taint EXCEPT ![n] = @ \cap {"volatile"}]
             /\ UNCHANGED <<k, local, info>>

CheckTx(n) == /\ phase[n] # "down"
              /\ taint' = [taint EXCEPT ![n] = IF "check" \in Deviations THEN @ \cup {"checked"} ELSE @]
              /\ UNCHANGED <<phase, k, height, disk, log, dtaint, local, info>>

Crash(n) == /\ phase[n] # "down"
            /\ phase' = [phase EXCEPT ![n] = "down"]
            /\ UNCHANGED <<k, height, disk, log, taint, dtaint, local, info>>

(* a new process: volatile state is gone, the log of results above the disk height is *)
(* produced again when the missing block is replayed                                   *)
Restart(n) == /\ phase[n] = "down"
              /\ phase' = [phase EXCEPT ![n] = "idle"] /\ k' = [k EXCEPT ![n] = 0]
              /\ height' = [height EXCEPT ![n] = disk[n]]
              /\ info' = [info EXCEPT ![n] = disk[n]]
              /\ log' = [log EXCEPT ![n] = SubSeq(@, 1, disk[n])]
              /\ taint' = [taint EXCEPT ![n] = IF "stale" \in Deviations THEN {"volatile"} ELSE {}]
              /\ UNCHANGED <<disk, dtaint, local>>

Next == \E n \in Nodes : Begin(n) \/ Deliver(n) \/ End(n) \/ Commit(n) \/ CheckTx(n) \/ Crash(n) \/ Restart(n)

Spec == Init /\ [][Next]_vars

(******************************* properties *******************************)
(* C01 / C07 / C08: any two replicas agree on the result of every block both have committed *)
Agreement == \A a, b \in Nodes : \A h \in 1..MaxH :
               (h <= Len(log[a]) /\ h <= Len(log[b])) => log[a][h] = log[b][h]
(* ... and the result is the function of the chain (no marks) *)
ResultIsFunctionOfChain == \A n \in Nodes : \A h \in 1..Len(log[n]) : log[n][h] = F(h, {})
(* C08: a restarted node reports its last completed commit; nothing reaches the disk before Commit *)
RestartInfo == \A n \in Nodes : info[n] # -1 => info[n] <= disk[n] /\ Len(log[n]) >= info[n]
NothingBeforeCommit == \A n \in Nodes : phase[n] \in {"open", "ended"} => "early" \notin dtaint[n]
CrashBound == TRUE
=============================================================================
