--------------------------- MODULE Governance_Trace ---------------------------
(* Trace validation of governance (C14).  Every line is one block of the real application: *)
(* proposal records (store, status, outcome, deadlines, goal, pass %), vote snapshots and    *)
(* opinions, escrowed funds per funder before and after the block, the accepted governance   *)
(* transactions in delivery order and the option records that changed.  TLC evaluates the    *)
(* lifecycle predicates of module Governance, the guards of accepted transactions and the    *)
(* exact bookkeeping of the escrowed funds.                                                   *)
EXTENDS Governance, Json, SequencesExt

Trace == ndJsonDeserialize("trace.ndjson")
VARIABLES l, nviol
tvars == <<l, nviol, gvars>>
Ev == Trace[l]

Report(name, ok) ==
  IF ok THEN 0 ELSE IF PrintT(<<"PROPERTY-VIOLATED", name, "line", l, "trace", Ev.t, "h", Ev.h>>) THEN 1 ELSE 1

Get2(f, a, b) == IF a \in DOMAIN f THEN Get(f[a], b) ELSE 0
Rec(id) == IF id \in DOMAIN Ev.pre THEN Ev.pre[id] ELSE Ev.post[id]
Known(id) == id \in DOMAIN Ev.pre \/ id \in DOMAIN Ev.post
TxOk(x) ==
  CASE x.k = "FUND" -> Known(x.id) /\ Ev.h <= Rec(x.id).fundDL /\ (x.id \notin DOMAIN Ev.pre \/ Rank(Ev.pre[x.id]) = 1) /\ x.amt >= 0
    [] x.k = "VOTE" -> Known(x.id) /\ Ev.h <= Ev.post[x.id].voteDL /\ x.v \in DOMAIN Ev.votesPost[x.id] /\ x.op \in {0, 1, 2, 3}
    [] x.k = "CANCEL" -> Known(x.id) /\ x.by = Rec(x.id).proposer /\ Ev.h <= Rec(x.id).fundDL
    [] x.k = "EXPIRE" -> x.id \in DOMAIN Ev.pre /\ Rank(Ev.pre[x.id]) = 2 /\ Ev.h > Ev.pre[x.id].voteDL
    [] x.k = "FINALIZE" -> x.id \in DOMAIN Ev.post /\ Rank(Ev.post[x.id]) = 4   \* accepted finalise: the proposal is finalised (possibly already was: no-op)
    [] x.k = "WITHDRAW" -> Known(x.id) /\ x.id \in DOMAIN Ev.post /\ Ev.post[x.id].outcome \in {OutCancelled, OutInsufficientFunds} /\ x.amt >= 0
    [] OTHER -> TRUE
BadTxs(kind) == {i \in 1..Len(Ev.txs) : Ev.txs[i].k = kind /\ ~TxOk(Ev.txs[i])}

(* escrow bookkeeping: what a funder has in escrow changes exactly by accepted contributions and withdrawals *)
Contributed(p, a) == SumF([i \in 1..Len(Ev.txs) |-> IF Ev.txs[i].k \in {"FUND", "CREATE"} /\ Ev.txs[i].id = p /\ Ev.txs[i].by = a THEN Ev.txs[i].amt ELSE 0], 1..Len(Ev.txs))
Withdrawn(p, a) == SumF([i \in 1..Len(Ev.txs) |-> IF Ev.txs[i].k = "WITHDRAW" /\ Ev.txs[i].id = p /\ Ev.txs[i].by = a THEN Ev.txs[i].amt ELSE 0], 1..Len(Ev.txs))
Funders(p) == (IF p \in DOMAIN Ev.fundsPre THEN DOMAIN Ev.fundsPre[p] ELSE {}) \cup (IF p \in DOMAIN Ev.fundsPost THEN DOMAIN Ev.fundsPost[p] ELSE {})
                \cup {Ev.txs[i].by : i \in {j \in 1..Len(Ev.txs) : Ev.txs[j].k \in {"FUND", "CREATE", "WITHDRAW"} /\ Ev.txs[j].id = p}}
EscrowExact == \A p \in DOMAIN Ev.post : Rank(Ev.post[p]) = 4 \/
                 \A a \in Funders(p) : Get2(Ev.fundsPost, p, a) = Get2(Ev.fundsPre, p, a) + Contributed(p, a) - Withdrawn(p, a)
EscrowTotals == \A p \in DOMAIN Ev.fundsPost : Get(Ev.fundTPost, p) = Sum(Ev.fundsPost[p])
DistributedOnce == \A p \in DOMAIN Ev.post : Rank(Ev.post[p]) = 4 => (p \notin DOMAIN Ev.fundsPost \/ Sum(Ev.fundsPost[p]) = 0)
SnapshotFixed == \A p \in DOMAIN Ev.votesPre : p \in DOMAIN Ev.votesPost =>
                   /\ DOMAIN Ev.votesPost[p] = DOMAIN Ev.votesPre[p]
                   /\ \A v \in DOMAIN Ev.votesPre[p] : Ev.votesPost[p][v].power = Ev.votesPre[p][v].power

(* an option record changes only in the block in which a passed configuration proposal naming it becomes finalised *)
ConfigOnlyByFinalisedPass ==
  \A c \in ToSet(Ev.optsChanged) : \E p \in DOMAIN Ev.post :
     /\ Ev.post[p].type = TypeConfig /\ Ev.post[p].store = "Finalized" /\ Ev.post[p].outcome = OutYes /\ Ev.post[p].group = c
     /\ (p \notin DOMAIN Ev.pre \/ Ev.pre[p].store # "Finalized")

TraceInit == l = 1 /\ nviol = 0 /\ GInit
TraceBlock ==
  /\ l <= Len(Trace) /\ l' = l + 1 /\ UNCHANGED gvars
  /\ nviol' = nviol
       + Report("ForwardOnly", ForwardOnly(Ev.pre, Ev.post))
       + Report("VotingOnlyWhenGoalMetBeforeDeadline", VotingOnlyWhenGoalMet(Ev.pre, Ev.post, Ev.fundTPost, Ev.h))
       + Report("MissedGoalOnlyAfterFundingDeadline", MissedGoalOnlyAfterDeadline(Ev.pre, Ev.post, Ev.h))
       + Report("ExpireOnlyAfterDeadline", ExpireOnlyAfterDeadline(Ev.pre, Ev.post, Ev.h))
       + Report("OutcomeFollowsVotes", OutcomeFollowsVotes(Ev.pre, Ev.post, Ev.votesPost))
       + Report("OutcomeFollowsVotes.expired", ExpiredOnlyIfUndecided(Ev.pre, Ev.post, Ev.votesPost))
       + Report("VotesOfSnapshotOnly", SnapshotFixed)
       + Report("ConfigAppliedOnlyForPassed", ConfigOnlyByFinalisedPass)
       + Report("ConfigAppliedWhenPassed", Ev.notApplied = <<>>)
       + Report("AcceptedFundAllowed", BadTxs("FUND") = {})
       + Report("AcceptedVoteAllowed", BadTxs("VOTE") = {})
       + Report("AcceptedCancelAllowed", BadTxs("CANCEL") = {})
       + Report("AcceptedUserExpireAllowed", BadTxs("EXPIRE") = {})
       + Report("AcceptedUserFinalizeAllowed", BadTxs("FINALIZE") = {})
       + Report("AcceptedWithdrawAllowed", BadTxs("WITHDRAW") = {})
       + Report("FundsEscrowExact", EscrowExact)
       + Report("FundsTotalIsSum", EscrowTotals)
       + Report("DistributedOnce", DistributedOnce)
TraceSpec == TraceInit /\ [][TraceBlock]_tvars
TraceAccepted ==
  LET d == TLCGet("stats").diameter want == Len(Trace) + 1
  IN IF d = want THEN TRUE ELSE Print(<<"TRACE-REJECTED matched-states", d, "of", want>>, FALSE)
=============================================================================
