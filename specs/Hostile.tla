------------------------------- MODULE Hostile -------------------------------
(***************************************************************************)
(* No transaction input can crash or halt the node (property C18).          *)
(*                                                                         *)
(* The node is a monitor with one variable: alive in {"up", "closed",       *)
(* "exited"} ("closed": handlePanic recovered a panic and shut the          *)
(* application down; "exited": logger.Fatal ended the process).  The input  *)
(* space is the product transaction kind x field x hostile class x path;    *)
(* whatever is submitted, the node answers with a code and stays up, and a  *)
(* probe (a fixed valid transfer through CheckTx and a block) behaves as    *)
(* without the hostile input.  The model's value is the enumeration of the  *)
(* product (TLC visits every class on every path) and the trace validation  *)
(* of what the real node did with each case.                                *)
(***************************************************************************)
EXTENDS Integers, Sequences, FiniteSets, TLC

CONSTANTS Classes, Paths, Outcomes       \* Outcomes: what a handler may do with a hostile value

VARIABLES alive, last, probed
hvars == <<alive, last, probed>>

HInit == alive = "up" /\ last = <<>> /\ probed = FALSE

(* the design: every outcome a handler may choose is a result code, never a death *)
Submit(c, p, o) == /\ alive = "up" /\ ~probed
                   /\ last' = [class |-> c, path |-> p, code |-> IF o = "reject" THEN 1 ELSE 0]
                   /\ alive' = "up" /\ probed' = FALSE
Probe == alive = "up" /\ last # <<>> /\ probed' = TRUE /\ UNCHANGED <<alive, last>>
Reset == probed /\ probed' = FALSE /\ last' = <<>> /\ UNCHANGED alive

HNext == (\E c \in Classes, p \in Paths, o \in Outcomes : Submit(c, p, o)) \/ Probe \/ Reset
HSpec == HInit /\ [][HNext]_hvars

StaysUp == alive = "up"

(* predicates over one observed case (used by Hostile_Trace) *)
Answered(code) == code >= 0
ProbeOk(pc, pd) == pc = 0 /\ pd = 0
=============================================================================
