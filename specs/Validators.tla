------------------------------ MODULE Validators ------------------------------
(***************************************************************************)
(* Validator-set updates (property C10).                                    *)
(*                                                                         *)
(* Transcribes identity/validator_set.go: Setup (queue of all committed     *)
(* validator records with their power at height h-1, lastActive = the       *)
(* signers of the last commit), GetEndBlockUpdate (pop by power until the   *)
(* top count is reached, skipping power below the minimum self delegation   *)
(* and malicious validators; one power-0 update for last-active validators  *)
(* that are no longer elected, guarded by the last purge height + 2;        *)
(* records without power are deleted), and Tendermint's rule that the       *)
(* updates of block h change the set of block h+2.                          *)
(*                                                                         *)
(* The properties are predicates over one block's observation so that they  *)
(* can be evaluated on the bounded model below and on traces of the real    *)
(* application (Validators_Trace):                                          *)
(*   rec      validator -> power in the records as of the previous block    *)
(*   bad      validators frozen / flagged malicious in those records        *)
(*   top,min  staking options in force                                      *)
(*   upd      the updates returned at block end (validator -> power)        *)
(*   nxt      Tendermint's next set, to which the updates are applied       *)
(***************************************************************************)
EXTENDS Integers, Sequences, FiniteSets, TLC

Get(f, k) == IF k \in DOMAIN f THEN f[k] ELSE 0
Eligible(rec, bad, min) == {v \in DOMAIN rec : rec[v] >= min /\ v \notin bad}
Positive(upd) == {v \in DOMAIN upd : upd[v] > 0}
Zero(upd) == {v \in DOMAIN upd : upd[v] = 0}
Members(set) == {v \in DOMAIN set : set[v] > 0}

(* Tendermint's acceptance rule (types.ValidatorSet.UpdateWithChangeSet), abstractly *)
ApplyUpd(set, upd) == [v \in (Members(set) \cup Positive(upd)) \ Zero(upd) |-> IF v \in DOMAIN upd THEN upd[v] ELSE set[v]]
UpdatesWellFormed(upd, nxt) ==
  /\ \A v \in DOMAIN upd : upd[v] >= 0
  /\ Zero(upd) \subseteq Members(nxt)                  \* never remove a validator that is not in the set
  /\ Members(ApplyUpd(nxt, upd)) # {}                  \* never empty the set

(* every positive update is justified by the previous block's records *)
PositiveUpdatesJustified(upd, rec, bad, top, min) ==
  LET P == Positive(upd) E == Eligible(rec, bad, min) IN
  /\ P \subseteq E                                      \* enough own stake, not frozen / malicious
  /\ \A v \in P : upd[v] = rec[v]                        \* carries that stake as its power
  /\ Cardinality(P) <= top
  /\ \A v \in P : \A c \in E \ P : rec[v] >= rec[c]      \* higher stake preferred
  /\ Cardinality(P) = (IF Cardinality(E) < top THEN Cardinality(E) ELSE top)

(* the election the active set must converge to *)
IsElection(S, rec, bad, top, min) ==
  LET E == Eligible(rec, bad, min) IN
  /\ S \subseteq E /\ Cardinality(S) = (IF Cardinality(E) < top THEN Cardinality(E) ELSE top)
  /\ \A v \in S : \A c \in E \ S : rec[v] >= rec[c]

(***************************************************************************)
(* Bounded model: stakes change by transactions, frozen flags by verdicts.  *)
(***************************************************************************)
CONSTANTS Vals, Powers, TopN, MinSelf, MaxH, Quiet

VARIABLES h, rec, prevrec, bad, cur, nxt, purge, upd, obs, lastChange, stable

vvars == <<h, rec, prevrec, bad, cur, nxt, purge, upd, obs, lastChange, stable>>

Order == CHOOSE s \in [1..Cardinality(Vals) -> Vals] : \A v \in Vals : \E i \in DOMAIN s : s[i] = v

VInit == /\ h = 1 /\ rec \in [Vals -> Powers] /\ prevrec = rec /\ bad = {}
         /\ cur = [v \in {x \in Vals : rec[x] >= MinSelf} |-> rec[v]] /\ Members(cur) # {}
         /\ Cardinality(Members(cur)) <= TopN
         /\ nxt = cur /\ purge = [v \in Vals |-> 0] /\ upd = <<>> /\ obs = <<>> /\ lastChange = 1 /\ stable = 0

(* the code's election: walk candidates by descending previous power (ties in a fixed order) *)
RECURSIVE Elect(_, _, _, _)
Elect(cands, acc, r, b) ==
  IF cands = {} \/ Cardinality(acc) = TopN THEN acc
  ELSE LET best == CHOOSE v \in cands : \A w \in cands : r[v] > r[w] \/ (r[v] = r[w] /\ (CHOOSE i \in DOMAIN Order : Order[i] = v) <= (CHOOSE i \in DOMAIN Order : Order[i] = w))
       IN Elect(cands \ {best}, IF r[best] >= MinSelf /\ best \notin b THEN acc \cup {best} ELSE acc, r, b)

(* transactions of block h: any stake change of validators outside their purge window *)
Block(newrec, newbad) ==
  /\ h < MaxH
  /\ (h <= Quiet \/ (newrec = rec /\ newbad = bad))      \* changes happen in the first Quiet blocks, then the world stays still
  /\ \A v \in Vals : newrec[v] # rec[v] => ~(purge[v] > 0 /\ purge[v] + 2 > h)
  /\ LET queue == {v \in Vals : rec[v] > 0 \/ prevrec[v] > 0 \/ v \in DOMAIN cur}   \* records that still exist
         pr == prevrec                                    \* power as of height h-1
         el == Elect({v \in Vals : TRUE}, {}, pr, bad)
         nonTop == Vals \ el
         purged == {v \in Members(cur) \cap nonTop : ~(purge[v] > 0 /\ h <= purge[v] + 2)}
         u == [v \in el \cup purged |-> IF v \in el THEN pr[v] ELSE 0]
     IN /\ upd' = u /\ obs' = [rec |-> pr, bad |-> bad, nxt |-> nxt]
        /\ purge' = [v \in Vals |-> IF v \in purged THEN h ELSE purge[v]]
        /\ cur' = nxt /\ nxt' = ApplyUpd(nxt, u)
  /\ prevrec' = rec /\ rec' = newrec /\ bad' = newbad /\ h' = h + 1
  /\ lastChange' = IF newrec # rec \/ newbad # bad THEN h + 1 ELSE lastChange
  /\ stable' = IF newrec = rec /\ newbad = bad /\ prevrec = rec THEN stable + 1 ELSE 0

VNext == \E nr \in [Vals -> Powers], nb \in {{}, {CHOOSE v \in Vals : TRUE}} : Block(nr, nb)
VSpec == VInit /\ [][VNext]_vvars

(* the model's election step satisfies the block-level properties *)
InvJustified == obs = <<>> \/ PositiveUpdatesJustified(upd, obs.rec, obs.bad, TopN, MinSelf)
InvWellFormed == obs = <<>> \/ UpdatesWellFormed(upd, obs.nxt)
InvConverges == stable >= 5 => IsElection(Members(cur), rec, bad, TopN, MinSelf)
=============================================================================
