SPECIFICATION Spec
CONSTANTS
  Keys = {"k1", "k2"}
  Vals = {"a", "b"}
  MaxCommits = 2
  MaxSteps = 9
  MaxPend = 2
  Recent = 0
  Every = 0
  Cycles = 0
  TombstoneLeak = FALSE
VIEW View
CONSTRAINT StepBound
INVARIANTS TypeOK OrderMatchesMap DeletedIsAbsent LastVersionLive ReopenIsLastCommit LogReproducesVersions
PROPERTIES VersionsImmutable ReadsDontWrite DiscardInvisible ReadYourWrites
CHECK_DEADLOCK FALSE
