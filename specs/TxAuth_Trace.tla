---------------------------- MODULE TxAuth_Trace ----------------------------
(* Trace validation for C04: every line is one mutant of a transaction that the real       *)
(* application had accepted (origCheck = 0): mutation class and signer position, the        *)
(* CheckTx code of the mutant, its DeliverTx code when it replaces the original in its      *)
(* block, and whether that block then equals the block without the transaction (application *)
(* hash and the results of the other transactions).  The admission rule of module TxAuth    *)
(* is evaluated on the abstract mutant: it must not be admitted, so the code must reject it *)
(* in CheckTx and it must take no effect when delivered.                                     *)
EXTENDS TxAuth, Json

Trace == ndJsonDeserialize("trace.ndjson")
VARIABLES l, nviol
tvars == <<l, nviol, avars>>
Ev == Trace[l]

Report(name, ok) ==
  IF ok THEN 0 ELSE IF PrintT(<<"PROPERTY-VIOLATED", name, "line", l, "trace", Ev.t, "h", Ev.h>>) THEN 1 ELSE 1

K == SetToSeqAny(Keys \ {Other})
Req(n) == [i \in 1..n |-> K[i]]
Abstract(e) == Apply(Honest(Req(e.nsig)), e.mut, e.pos)

TraceInit == l = 1 /\ nviol = 0 /\ tx = Honest(Req(1)) /\ mut = "none" /\ pos = 1
TraceStep ==
  /\ l <= Len(Trace) /\ l' = l + 1 /\ UNCHANGED avars
  /\ LET admitted == Admit(Abstract(Ev)) IN
     nviol' = nviol + Report("SpecRejectsMutant", ~admitted)
                    + Report("NodeSurvives", Ev.mutCheck # -1 /\ Ev.mutDeliver # -1)
                    + Report("MutantRejectedByCheckTx", admitted \/ Ev.mutCheck # 0)
                    + Report("MutantRejectedByDeliverTx", admitted \/ Ev.mutDeliver # 0)
                    + Report("MutantHasNoEffect", admitted \/ Ev.mutDeliver = -1 \/ (Ev.sameHash /\ Ev.others))
TraceSpec == TraceInit /\ [][TraceStep]_tvars
TraceAccepted ==
  LET d == TLCGet("stats").diameter want == Len(Trace) + 1
  IN IF d = want THEN TRUE ELSE Print(<<"TRACE-REJECTED matched-states", d, "of", want>>, FALSE)
=============================================================================
