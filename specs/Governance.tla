------------------------------ MODULE Governance ------------------------------
(***************************************************************************)
(* Governance proposals (property C14).                                     *)
(*                                                                         *)
(* Transcribes the lifecycle of action/governance/*.go and app/internalTX.go*)
(* at the level the property speaks about: a proposal is funding, voting    *)
(* (once its goal is met no later than the funding deadline), completed     *)
(* (passed / failed / cancelled / insufficient funds / insufficient votes), *)
(* finalised.  Votes are those of the validators snapshotted when voting    *)
(* began; expiry needs the voting deadline to be over; a configuration      *)
(* change is applied once, at finalisation of a passed proposal; funds are  *)
(* escrowed per funder, returned on cancellation / missed goal, and         *)
(* otherwise distributed once at finalisation.                              *)
(*                                                                         *)
(* Stage ranks: 1 funding, 2 voting, 3 completed, 4 finalised.              *)
(* The predicates over (pre, post, block) are used by the bounded model and *)
(* by Governance_Trace on the real application's records.                    *)
(***************************************************************************)
EXTENDS Integers, Sequences, FiniteSets, TLC

Get(f, k) == IF k \in DOMAIN f THEN f[k] ELSE 0
RECURSIVE SumF(_, _)
SumF(f, ks) == IF ks = {} THEN 0 ELSE LET k == CHOOSE x \in ks : TRUE IN f[k] + SumF(f, ks \ {k})
Sum(f) == SumF(f, DOMAIN f)

(* codes of data/governance/init.go *)
StFunding == 35  StVoting == 36  StCompleted == 37
OutInsufficientFunds == 39  OutInsufficientVotes == 40  OutNo == 41  OutCancelled == 48  OutYes == 49
TypeConfig == 32

Rank(p) == IF p.store = "Active" THEN (IF p.status = StFunding THEN 1 ELSE 2)
           ELSE IF p.store \in {"Passed", "Failed"} THEN 3 ELSE 4

(* tally of recorded votes: votes[v] = [op, power]; op 1 yes, 2 no, 3 give up *)
PowerOf(votes, op) == SumF([v \in DOMAIN votes |-> IF votes[v].op = op THEN votes[v].power ELSE 0], DOMAIN votes)
AllPower(votes) == SumF([v \in DOMAIN votes |-> votes[v].power], DOMAIN votes)
TotalPower(votes) == AllPower(votes) - PowerOf(votes, 3)
Passes(votes, pass) == IF TotalPower(votes) > 0 THEN PowerOf(votes, 1) * 100 >= pass * TotalPower(votes) ELSE pass <= 0
Fails(votes, pass) == ~Passes(votes, pass) /\
                      (IF TotalPower(votes) > 0 THEN (TotalPower(votes) - PowerOf(votes, 2)) * 100 < pass * TotalPower(votes) ELSE 100 < pass)

ForwardOnly(pre, post) == \A p \in DOMAIN pre : p \in DOMAIN post /\ Rank(post[p]) >= Rank(pre[p])
ExpireOnlyAfterDeadline(pre, post, h) ==
  \A p \in DOMAIN pre : (Rank(pre[p]) = 2 /\ p \in DOMAIN post /\ Rank(post[p]) >= 3 /\ post[p].outcome = OutInsufficientVotes) => h > pre[p].voteDL
(* a proposal is declared to have missed its goal only once the funding deadline has passed (contributions are accepted up to and including it) *)
MissedGoalOnlyAfterDeadline(pre, post, h) ==
  \A p \in DOMAIN post : (post[p].outcome = OutInsufficientFunds /\ (p \notin DOMAIN pre \/ pre[p].outcome # OutInsufficientFunds)) => h > post[p].fundDL
OutcomeFollowsVotes(pre, post, votes) ==
  \A p \in DOMAIN pre : (Rank(pre[p]) = 2 /\ p \in DOMAIN post /\ Rank(post[p]) = 3 /\ p \in DOMAIN votes) =>
      /\ (post[p].store = "Passed" => Passes(votes[p], pre[p].passPct))
      /\ (post[p].outcome = OutNo => Fails(votes[p], pre[p].passPct))
(* the recorded votes decide: a proposal whose recorded votes make it pass or fail does not end as "expired for lack of   *)
(* votes" (ExpiredOnlyIfUndecided, evaluated on executions); the model decides in the vote step, so there it also holds  *)
(* that no proposal is left in voting once its votes decide (DecidedAsVotesSay, an invariant of the model only: an        *)
(* implementation that decided later, at the deadline, would still follow the votes)                                    *)
ExpiredOnlyIfUndecided(pre, post, votes) ==
  \A p \in DOMAIN pre : (Rank(pre[p]) = 2 /\ p \in DOMAIN post /\ post[p].outcome = OutInsufficientVotes /\ p \in DOMAIN votes)
      => (~Passes(votes[p], pre[p].passPct) /\ ~Fails(votes[p], pre[p].passPct))
DecidedAsVotesSay(post, votes) ==
  \A p \in DOMAIN post : (Rank(post[p]) = 2 /\ p \in DOMAIN votes) => (~Passes(votes[p], post[p].passPct) /\ ~Fails(votes[p], post[p].passPct))
VotingOnlyWhenGoalMet(pre, post, fundT, h) ==
  \A p \in DOMAIN post : (Rank(post[p]) >= 2 /\ post[p].outcome \notin {OutCancelled, OutInsufficientFunds} /\ (p \notin DOMAIN pre \/ Rank(pre[p]) = 1))
                         => (Get(fundT, p) >= post[p].goal /\ h <= post[p].fundDL)
ConfigOnlyForPassed(pre, post, changed) ==
  changed # {} => \E p \in DOMAIN pre : pre[p].type = TypeConfig /\ pre[p].store = "Passed" /\ p \in DOMAIN post /\ post[p].store = "Finalized"

(***************************************************************************)
(* Bounded model of the lifecycle.                                          *)
(***************************************************************************)
CONSTANTS Props, Voters, MaxH, Deviations

VARIABLES pr, vt, hh, applied
gvars == <<pr, vt, hh, applied>>

P0(fdl) == [store |-> "Active", status |-> StFunding, outcome |-> 38, fundDL |-> fdl, voteDL |-> 0, passPct |-> 51, goal |-> 2, type |-> TypeConfig, fund |-> 1]

GInit == pr = <<>> /\ vt = <<>> /\ hh = 1 /\ applied = [p \in Props |-> 0]
Upd(f, k, x) == [y \in DOMAIN f \cup {k} |-> IF y = k THEN x ELSE f[y]]

Create(p) == p \notin DOMAIN pr /\ pr' = Upd(pr, p, P0(hh + 2)) /\ UNCHANGED <<vt, hh, applied>>
Fund(p) == /\ p \in DOMAIN pr /\ Rank(pr[p]) = 1 /\ hh <= pr[p].fundDL
           /\ LET q == [pr[p] EXCEPT !.fund = @ + 1] IN
              IF q.fund >= q.goal
              THEN pr' = Upd(pr, p, [q EXCEPT !.status = StVoting, !.voteDL = hh + 2]) /\ vt' = Upd(vt, p, [v \in Voters |-> [op |-> 0, power |-> 1]])
              ELSE pr' = Upd(pr, p, q) /\ vt' = vt
           /\ UNCHANGED <<hh, applied>>
Decide(p, votes) ==
  IF Passes(votes, pr[p].passPct) THEN Upd(pr, p, [pr[p] EXCEPT !.store = "Passed", !.status = StCompleted, !.outcome = OutYes])
  ELSE IF Fails(votes, pr[p].passPct) THEN Upd(pr, p, [pr[p] EXCEPT !.store = "Failed", !.status = StCompleted, !.outcome = OutNo])
  ELSE pr
Vote(p, v, op) == /\ p \in DOMAIN pr /\ Rank(pr[p]) = 2 /\ hh <= pr[p].voteDL
                  /\ LET nv == [vt[p] EXCEPT ![v].op = op] IN vt' = Upd(vt, p, nv) /\ pr' = Decide(p, nv)
                  /\ UNCHANGED <<hh, applied>>
Cancel(p) == /\ p \in DOMAIN pr /\ Rank(pr[p]) = 1 /\ hh <= pr[p].fundDL
             /\ pr' = Upd(pr, p, [pr[p] EXCEPT !.store = "Failed", !.status = StCompleted, !.outcome = OutCancelled])
             /\ UNCHANGED <<vt, hh, applied>>
Expire(p) == /\ p \in DOMAIN pr /\ Rank(pr[p]) = 2
             /\ ("expireAnyTime" \in Deviations \/ hh > pr[p].voteDL)
             /\ LET d == Decide(p, vt[p]) IN
                pr' = IF d # pr THEN d ELSE Upd(pr, p, [pr[p] EXCEPT !.store = "Failed", !.status = StCompleted, !.outcome = OutInsufficientVotes])
             /\ UNCHANGED <<vt, hh, applied>>
Finalize(p) == /\ p \in DOMAIN pr /\ Rank(pr[p]) = 3 /\ pr[p].outcome \in {OutYes, OutNo}
               /\ pr' = Upd(pr, p, [pr[p] EXCEPT !.store = "Finalized"])
               /\ applied' = [applied EXCEPT ![p] = @ + IF pr[p].outcome = OutYes THEN 1 ELSE 0]
               /\ UNCHANGED <<vt, hh>>
Tick == hh < MaxH /\ hh' = hh + 1 /\ UNCHANGED <<pr, vt, applied>>

GNext == Tick \/ \E p \in Props : Create(p) \/ Fund(p) \/ Cancel(p) \/ Expire(p) \/ Finalize(p) \/ \E v \in Voters, op \in {1, 2, 3} : Vote(p, v, op)
GSpec == GInit /\ [][GNext]_gvars

PropForwardOnly == [][ForwardOnly(pr, pr')]_gvars
PropExpireAfterDeadline == [][ExpireOnlyAfterDeadline(pr, pr', hh)]_gvars
PropOutcomeFollowsVotes == [][OutcomeFollowsVotes(pr, pr', vt')]_gvars
InvDecidedAsVotesSay == DecidedAsVotesSay(pr, vt)
PropExpiredOnlyIfUndecided == [][ExpiredOnlyIfUndecided(pr, pr', vt')]_gvars
InvAppliedOnce == \A p \in Props : applied[p] <= 1 /\ (applied[p] = 1 => pr[p].outcome = OutYes)
=============================================================================
