------------------------------- MODULE Replay -------------------------------
(***************************************************************************)
(* At-most-once execution of signed transactions (property C05).           *)
(*                                                                         *)
(* Transcribes app/controller.go VerifyCache / GetTxFromCache: CheckTx     *)
(* rejects and DeliverTx short-circuits when the hash of the RECEIVED BYTES *)
(* is in the node's transaction index; the signature (action/base.go        *)
(* RawTx.RawBytes) covers a RE-SERIALISATION of the parsed transaction, so  *)
(* several byte strings (encodings) carry the same signed content.          *)
(*   executed[c]  how often signed content c took effect                    *)
(*   index        the <<content, encoding>> pairs indexed at commit          *)
(* The deviation "rawBytesKey" is the code as it is (the replay record is   *)
(* keyed by the received bytes); without it the record is keyed by the      *)
(* signed content, which is what the property needs.  TLC shows AtMostOnce  *)
(* holds without the deviation and produces the re-encoding counterexample  *)
(* with it; the harness replays that counterexample on the real code.       *)
(***************************************************************************)
EXTENDS Integers, FiniteSets, TLC

CONSTANTS Contents, Encs, MaxH, Deviations

VARIABLES executed, index, pending, h
rvars == <<executed, index, pending, h>>

RInit == executed = [c \in Contents |-> 0] /\ index = {} /\ pending = {} /\ h = 1

Known(c, e) == IF "rawBytesKey" \in Deviations THEN <<c, e>> \in index
               ELSE \E x \in Encs : <<c, x>> \in index

(* CheckTx + inclusion + DeliverTx of encoding e of content c in the current block *)
Submit(c, e) == /\ ~Known(c, e)
                /\ ~\E p \in pending : p[1] = c      \* duplicates inside one block are outside the property
                /\ executed' = [executed EXCEPT ![c] = @ + 1]
                /\ pending' = pending \cup {<<c, e>>}
                /\ UNCHANGED <<index, h>>
(* a resubmission that the node recognises changes nothing *)
Resubmit(c, e) == Known(c, e) /\ UNCHANGED rvars
Commit == h < MaxH /\ h' = h + 1 /\ index' = index \cup pending /\ pending' = {} /\ UNCHANGED executed

RNext == (\E c \in Contents, e \in Encs : Submit(c, e) \/ Resubmit(c, e)) \/ Commit
RSpec == RInit /\ [][RNext]_rvars

AtMostOnce == \A c \in Contents : executed[c] <= 1
ExecBound == \A c \in Contents : executed[c] <= 2
=============================================================================
