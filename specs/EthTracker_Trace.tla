--------------------------- MODULE EthTracker_Trace ---------------------------
(* Trace validation of the ethereum trackers (C15).  Every line is one block of the real   *)
(* application: the accepted lock / redeem / finality-report transactions in delivery       *)
(* order (external transaction, amount, reporting address, vote index, verdict, claimed     *)
(* beneficiary), the witness list, the supply cap, and afterwards the tracker records       *)
(* (store, votes) and all wrapped-ETH balances.  TLC applies the transactions with the      *)
(* guards and effects of module EthTracker (the mint goes to the tracker's owner) and       *)
(* compares votes, completion, stores and balances exactly.                                  *)
EXTENDS EthTracker, Json, SequencesExt

Trace == ndJsonDeserialize("trace.ndjson")
VARIABLES l, nviol, cur
tvars == <<l, nviol, cur, evars>>
Ev == Trace[l]

Report2(name, ok) ==
  IF ok THEN 0 ELSE IF PrintT(<<"PROPERTY-VIOLATED", name, "line", l, "trace", Ev.t, "h", Ev.h>>) THEN 1 ELSE 1

RECURSIVE Fold(_, _, _, _)
Fold(s, txs, i, bad) ==
  IF i > Len(txs) THEN [s |-> s, bad |-> bad]
  ELSE LET x == txs[i] IN
    CASE x.k = "LOCK" -> Fold(DoLock(s, x.x, x.owner, x.amt, Ev.wits), txs, i + 1, IF CanLock(s, x.x, x.amt, Ev.cap) THEN bad ELSE bad \cup {"lock"})
      [] x.k = "REDEEM" -> Fold(DoRedeem(s, x.x, x.owner, x.amt, Ev.wits), txs, i + 1, IF CanRedeem(s, x.x, x.owner, x.amt) THEN bad ELSE bad \cup {"redeem"})
      [] x.k = "REPORT" -> IF CanReport(s, x.x, x.by, x.idx)
                           THEN Fold(DoReport(s, x.x, x.by, x.idx, x.ok, s.trk[x.x].owner), txs, i + 1, bad)
                           ELSE Fold(s, txs, i + 1, bad \cup {"report"})
      [] OTHER -> Fold(s, txs, i + 1, bad)

(* block end: completed trackers move to the passed / failed store *)
Settle(s) == LET t == s.trk IN
  [s EXCEPT !.trk = [x \in DOMAIN t |->
      IF t[x].store = "ongoing" /\ t[x].done
      THEN [t[x] EXCEPT !.store = IF IsFinal(t[x]) THEN "passed" ELSE "failed"]
      ELSE t[x]]]

Eq1(f, g) == \A k \in DOMAIN f \cup DOMAIN g : Get(f, k) = Get(g, k)
TrkView(t) == [store |-> t.store, votes |-> t.votes, owner |-> t.owner]

TraceInit == l = 1 /\ nviol = 0 /\ cur = [trk |-> <<>>, bal |-> <<>>] /\ EInit

TraceStart ==
  /\ l <= Len(Trace) /\ Ev.ev = "Init" /\ l' = l + 1 /\ UNCHANGED evars
  /\ cur' = [trk |-> <<>>, bal |-> Ev.bal]
  /\ nviol' = nviol + Report2("SupplyEqualsCirculation", SupplyEqualsCirculation([trk |-> <<>>, bal |-> Ev.bal]))

(* the logged tracker records, in the specification's shape *)
Logged(e) == [trk |-> [x \in DOMAIN e.trk |-> [store |-> e.trk[x].store, type |-> e.trk[x].type, owner |-> e.trk[x].owner, amt |-> e.trk[x].amt,
                                               wits |-> e.trk[x].wits, votes |-> e.trk[x].votes, done |-> e.trk[x].done]],
              bal |-> e.bal]

TraceBlock ==
  /\ l <= Len(Trace) /\ Ev.ev = "Block" /\ l' = l + 1 /\ UNCHANGED evars
  /\ LET f == Fold(cur, Ev.txs, 1, {})
         c == f.s
         lg == Logged(Ev)
         (* a tracker that completed in an earlier block has left the ongoing store by now; one that *)
         (* completed in this block may still be there (it is moved at a later block end)            *)
         StoreOk(x) == \/ lg.trk[x].store = c.trk[x].store
                       \/ (c.trk[x].done /\ lg.trk[x].store = Settle(c).trk[x].store)
         carry == [trk |-> [x \in DOMAIN lg.trk |-> IF lg.trk[x].store = "ongoing" \/ x \notin DOMAIN c.trk THEN lg.trk[x]
                                                      ELSE [c.trk[x] EXCEPT !.store = lg.trk[x].store]],
                   bal |-> lg.bal]
     IN /\ cur' = carry
        /\ nviol' = nviol
             + Report2("OneTrackerPerExternalTx", "lock" \notin f.bad /\ "redeem" \notin f.bad /\ Ev.dupTrackers = <<>>)
             + Report2("OnlyWitnessVotesCountOnce.accepted", "report" \notin f.bad)
             + Report2("TrackersExact.exist", DOMAIN c.trk = DOMAIN lg.trk)
             + Report2("OnlyWitnessVotesCountOnce.votes", DOMAIN c.trk # DOMAIN lg.trk \/ \A x \in DOMAIN c.trk : lg.trk[x].store # "ongoing" \/ c.trk[x].votes = lg.trk[x].votes)
             + Report2("ThresholdGated.completion", DOMAIN c.trk # DOMAIN lg.trk \/ \A x \in DOMAIN c.trk : StoreOk(x) /\ (lg.trk[x].store # "ongoing" \/ c.trk[x].done = lg.trk[x].done))
             + Report2("MintAndRefundExact.balances", Eq1(c.bal, Ev.bal))
             + Report2("SupplyEqualsCirculation", SupplyEqualsCirculation(lg))

TraceNext == TraceStart \/ TraceBlock
TraceSpec == TraceInit /\ [][TraceNext]_tvars
TraceAccepted ==
  LET d == TLCGet("stats").diameter want == Len(Trace) + 1
  IN IF d = want THEN TRUE ELSE Print(<<"TRACE-REJECTED matched-states", d, "of", want>>, FALSE)
=============================================================================
