-------------------------------- MODULE Ons --------------------------------
(***************************************************************************)
(* Domain names (property C20).                                             *)
(*                                                                         *)
(* Transcribes action/ons/{create,update,sale,purchase,send,renew,          *)
(* deleteSub}.go over the records of data/ons/store.go.  One operator pair  *)
(* Can*/Do* per handler: Can* is the part of the handler's checks the       *)
(* property relies on (who may change a name, what a purchase must pay,     *)
(* when a name counts as expired), Do* the handler's effect on the domain   *)
(* records and the OLT balances.                                            *)
(*   s.dom[n]   record of name n: owner, benef, created, lastUpd, exp,      *)
(*              active, sale, price (0 = none), uri                         *)
(*   s.bal[o]   OLT balance of owner o                                      *)
(* The environment e of a transaction: e.h header height, e.ver the chain   *)
(* state version the handlers read through ctx.State.Version() (the last    *)
(* committed block, h-1), e.base / e.pb the configured base price and price *)
(* per block, e.par[n] the parent of sub-name n ("" for a first-level name).*)
(* Deliberate particularities of the code that are modelled as they are:    *)
(*   - create/purchase count the bought blocks from e.ver, not from e.h;    *)
(*   - a purchase records lastUpd = e.ver, every other change e.h;          *)
(*   - a record changes at most once per block (IsChangeable), except by    *)
(*     purchase;                                                            *)
(*   - cancelling a sale needs a price above the per-block price as well;   *)
(*   - deleting sub-names does not touch the parent record;                 *)
(*   - iteration over sub-names misses those created in the current block   *)
(*     (deviation "iterCommittedOnly", see Subs); with it the invariant     *)
(*     InvSubFollowsParent does not hold - a recorded finding.              *)
(***************************************************************************)
EXTENDS Integers, Sequences, FiniteSets, TLC

Get(f, k) == IF k \in DOMAIN f THEN f[k] ELSE 0
Put(f, k, x) == [y \in DOMAIN f \cup {k} |-> IF y = k THEN x ELSE f[y]]
Add(f, k, x) == Put(f, k, Get(f, k) + x)
Without(f, ks) == [y \in DOMAIN f \ ks |-> f[y]]
Max2(a, b) == IF a > b THEN a ELSE b

IsSub(e, n) == n \in DOMAIN e.par /\ e.par[n] # ""
Has(s, n) == n \in DOMAIN s.dom
(* the sub-names a handler finds by iterating the store.  e.limit transcribes the code as it is: State.IterateRange takes   *)
(* its keys from the committed tree, so a sub-name created earlier in the same block (not in e.seen, the names that exist *)
(* at the beginning of the block) is not visited by purchase, renew, update and delete-all.                              *)
Subs(s, e, n) == {m \in DOMAIN s.dom : IsSub(e, m) /\ e.par[m] = n /\ (e.limit => m \in e.seen)}
Changeable(s, e, n) == e.h >= s.dom[n].lastUpd + 1
OwnedBy(s, n, o) == s.dom[n].owner = o

(* ---- guards: x is the accepted request ---- *)
CanCreate(s, e, x) ==
  /\ ~Has(s, x.name) /\ x.amt > e.base
  /\ IsSub(e, x.name) => (Has(s, e.par[x.name]) /\ OwnedBy(s, e.par[x.name], x.by))
CanUpdate(s, e, x) == Has(s, x.name) /\ Changeable(s, e, x.name) /\ OwnedBy(s, x.name, x.by)
CanSale(s, e, x) ==
  /\ x.amt > e.pb /\ ~IsSub(e, x.name) /\ Has(s, x.name) /\ OwnedBy(s, x.name, x.by)
  /\ Changeable(s, e, x.name) /\ ~(s.dom[x.name].exp < e.h)
Live(s, e, n) == e.ver <= s.dom[n].exp          \* not expired as purchase sees it
CanPurchase(s, e, x) ==
  /\ Has(s, x.name) /\ ~IsSub(e, x.name)
  /\ (s.dom[x.name].sale \/ ~Live(s, e, x.name))
  /\ IF Live(s, e, x.name) /\ s.dom[x.name].sale THEN x.amt >= s.dom[x.name].price ELSE x.amt >= e.base
CanSend(s, e, x) ==
  /\ Has(s, x.name) /\ Changeable(s, e, x.name) /\ s.dom[x.name].active /\ s.dom[x.name].exp > e.ver /\ s.dom[x.name].benef # ""
CanRenew(s, e, x) ==
  /\ x.amt > e.pb /\ ~IsSub(e, x.name) /\ Has(s, x.name) /\ Changeable(s, e, x.name)
  /\ ~(s.dom[x.name].exp < e.ver) /\ OwnedBy(s, x.name, x.by)
ParentFor(e, n) == IF IsSub(e, n) THEN e.par[n] ELSE n
CanDeleteSub(s, e, x) ==
  /\ Has(s, ParentFor(e, x.name)) /\ Changeable(s, e, ParentFor(e, x.name)) /\ OwnedBy(s, ParentFor(e, x.name), x.by)
  /\ IsSub(e, x.name) => Has(s, x.name)

(* ---- effects ---- *)
DoFee(s, p, f) == [s EXCEPT !.bal = Add(@, p, -f)]
DoCreate(s, e, x) ==
  LET exp == IF IsSub(e, x.name) THEN s.dom[e.par[x.name]].exp ELSE e.ver + ((x.amt - e.base) \div e.pb)
      rec == [owner |-> x.by, benef |-> IF x.benef = "" THEN x.by ELSE x.benef, created |-> e.h, lastUpd |-> e.h, exp |-> exp,
              active |-> TRUE, sale |-> FALSE, price |-> 0, uri |-> x.uri]
  IN [s EXCEPT !.bal = Add(@, x.by, -x.amt), !.dom = Put(@, x.name, rec)]
DoUpdate(s, e, x) ==
  LET off == IF ~x.active /\ ~IsSub(e, x.name) THEN Subs(s, e, x.name) ELSE {}
      d1 == [m \in DOMAIN s.dom |-> IF m \in off THEN [s.dom[m] EXCEPT !.active = FALSE] ELSE s.dom[m]]
  IN [s EXCEPT !.dom = Put(d1, x.name, [d1[x.name] EXCEPT !.benef = x.benef, !.active = x.active, !.lastUpd = e.h, !.uri = x.uri])]
DoSale(s, e, x) ==
  [s EXCEPT !.dom[x.name] = IF x.cancel THEN [@ EXCEPT !.sale = FALSE, !.price = 0, !.lastUpd = e.h]
                            ELSE [@ EXCEPT !.active = FALSE, !.sale = TRUE, !.price = x.amt, !.lastUpd = e.h]]
DoPurchase(s, e, x) ==
  LET d == s.dom[x.name]
      fromOwner == Live(s, e, x.name) /\ d.sale
      paid == IF fromOwner THEN d.price ELSE 0                 \* to the previous owner
      rest == x.amt - paid                                     \* to the fee pool, buys blocks
      ext == IF fromOwner THEN rest \div e.pb ELSE (x.amt - e.base) \div e.pb
      rec == [d EXCEPT !.owner = x.by, !.benef = x.benef, !.exp = Max2(d.exp, e.ver) + ext, !.price = 0, !.lastUpd = e.ver,
                       !.active = TRUE, !.uri = "", !.sale = FALSE]
  IN [s EXCEPT !.bal = Add(Add(Add(@, x.by, -paid), d.owner, paid), x.by, -rest),
               !.dom = Put(Without(@, Subs(s, e, x.name)), x.name, rec)]
DoSend(s, e, x) == [s EXCEPT !.bal = Add(Add(@, x.by, -x.amt), s.dom[x.name].benef, x.amt)]
DoRenew(s, e, x) ==
  LET ne == s.dom[x.name].exp + (x.amt \div e.pb)
      kids == Subs(s, e, x.name)
  IN [s EXCEPT !.bal = Add(@, x.by, -x.amt),
               !.dom = [m \in DOMAIN @ |-> IF m = x.name THEN [@[m] EXCEPT !.exp = ne, !.lastUpd = e.h]
                                           ELSE IF m \in kids THEN [@[m] EXCEPT !.exp = ne] ELSE @[m]]]
DoDeleteSub(s, e, x) ==
  [s EXCEPT !.dom = Without(@, IF IsSub(e, x.name) THEN {x.name} ELSE Subs(s, e, x.name))]
DoPlainSend(s, x) == [s EXCEPT !.bal = Add(Add(@, x.by, -x.amt), x.to, x.amt)]

(* ---- properties of a state ---- *)
SubFollowsParent(s, e) ==
  \A m \in DOMAIN s.dom : (IsSub(e, m) /\ Has(s, e.par[m])) =>
      /\ s.dom[m].exp = s.dom[e.par[m]].exp          \* a sub-name expires with its parent
      /\ s.dom[m].owner = s.dom[e.par[m]].owner      \* and never outlives a change of owner
SubHasParent(s, e) == \A m \in DOMAIN s.dom : IsSub(e, m) => Has(s, e.par[m])
NonNegative(s) == \A o \in DOMAIN s.bal : s.bal[o] >= 0

(***************************************************************************)
(* Bounded model: two accounts, one first-level name with one sub-name and  *)
(* a second first-level name; small prices.                                 *)
(***************************************************************************)
CONSTANTS Accts, Names, SubNames, TheParent, Amts, Base, Pb, MaxH, InitBal, Deviations
Par == [n \in Names |-> IF n \in SubNames THEN TheParent ELSE ""]   \* in the bounded model all sub-names hang under one parent

VARIABLES st, hh, last, seen
ovars == <<st, hh, last, seen>>
Env == [h |-> hh, ver |-> hh - 1, base |-> Base, pb |-> Pb, par |-> Par, limit |-> "iterCommittedOnly" \in Deviations, seen |-> seen]
Req(k, n, by, benef, amt, active, cancel) == [k |-> k, name |-> n, by |-> by, benef |-> benef, amt |-> amt, active |-> active, cancel |-> cancel, uri |-> "", to |-> ""]

OInit == st = [dom |-> <<>>, bal |-> [a \in Accts |-> InitBal]] /\ hh = 1 /\ last = Req("none", "", "", "", 0, FALSE, FALSE) /\ seen = {}

Step(x, can, post) == can /\ post.bal[x.by] >= 0 /\ st' = post /\ last' = x /\ hh' = hh /\ seen' = seen
Create(n, by, amt) == LET x == Req("CREATE", n, by, by, amt, TRUE, FALSE) IN Step(x, CanCreate(st, Env, x), DoCreate(st, Env, x))
Update(n, by, benef, act) ==
  LET x == Req("UPDATE", n, by, benef, 0, act, FALSE)
      can == IF "updateByAnyone" \in Deviations THEN Has(st, n) /\ Changeable(st, Env, n) ELSE CanUpdate(st, Env, x)
  IN Step(x, can, DoUpdate(st, Env, x))
Sale(n, by, amt, c) == LET x == Req("SALE", n, by, "", amt, FALSE, c) IN Step(x, CanSale(st, Env, x), DoSale(st, Env, x))
Purchase(n, by, amt) ==
  LET x == Req("PURCHASE", n, by, by, amt, TRUE, FALSE)
      post == DoPurchase(st, Env, x)
      kept == IF "purchaseKeepsSubs" \in Deviations THEN [post EXCEPT !.dom = [m \in DOMAIN st.dom |-> IF m = n THEN post.dom[n] ELSE st.dom[m]]] ELSE post
  IN Step(x, CanPurchase(st, Env, x), kept)
Renew(n, by, amt) == LET x == Req("RENEW", n, by, "", amt, FALSE, FALSE) IN Step(x, CanRenew(st, Env, x), DoRenew(st, Env, x))
DeleteSub(n, by) == LET x == Req("DELETESUB", n, by, "", 0, FALSE, FALSE) IN Step(x, CanDeleteSub(st, Env, x), DoDeleteSub(st, Env, x))
Tick == hh < MaxH /\ hh' = hh + 1 /\ UNCHANGED st /\ last' = Req("tick", "", "", "", 0, FALSE, FALSE)
        /\ seen' = IF "iterCommittedOnly" \in Deviations THEN DOMAIN st.dom ELSE {}

ONext ==
  \/ Tick
  \/ \E n \in Names, by \in Accts :
       \/ \E amt \in Amts : Create(n, by, amt) \/ Purchase(n, by, amt) \/ Renew(n, by, amt) \/ \E c \in BOOLEAN : Sale(n, by, amt, c)
       \/ \E benef \in Accts, act \in BOOLEAN : Update(n, by, benef, act)
       \/ DeleteSub(n, by)
OSpec == OInit /\ [][ONext]_ovars

InvSubFollowsParent == SubFollowsParent(st, Env) /\ SubHasParent(st, Env)
InvNonNegative == NonNegative(st)
(* a record changes only by a request of its current owner (for a sub-name: also of the parent's owner, who owns it too), or by a purchase *)
Changed(n) == (n \in DOMAIN st.dom) # (n \in DOMAIN st'.dom) \/ (n \in DOMAIN st.dom /\ n \in DOMAIN st'.dom /\ st.dom[n] # st'.dom[n])
PropOwnerOnly ==
  [][\A n \in Names : (Changed(n) /\ n \in DOMAIN st.dom) =>
        \/ last'.by = st.dom[n].owner
        \/ last'.k = "PURCHASE" /\ last'.name = ParentFor(Env, n)]_ovars
(* a purchase from a live owner pays the asking price to that owner *)
PropPurchasePays ==
  [][\A n \in Names : (last'.k = "PURCHASE" /\ last'.name = n /\ n \in DOMAIN st.dom /\ n \in DOMAIN st'.dom /\ st.dom[n].sale /\ Live(st, Env, n)
                        /\ st.dom[n].owner # last'.by)
        => st'.bal[st.dom[n].owner] = st.bal[st.dom[n].owner] + st.dom[n].price /\ last'.amt >= st.dom[n].price]_ovars
(* expiry only moves forward, and only by what was paid for *)
PropExpiryPaid ==
  [][\A n \in Names : (n \in DOMAIN st.dom /\ n \in DOMAIN st'.dom /\ st'.dom[n].exp # st.dom[n].exp) =>
        /\ last'.k \in {"PURCHASE", "RENEW"} /\ last'.name = ParentFor(Env, n)
        /\ st'.dom[n].exp - Max2(st.dom[n].exp, IF last'.k = "PURCHASE" THEN hh - 1 ELSE st.dom[n].exp) <= last'.amt \div Pb]_ovars
=============================================================================
