SPECIFICATION Spec
CONSTANTS
  Keys = {"k1", "k2"}
  Vals = {"a", "b"}
  MaxCommits = 1
  MaxSteps = 1000000
  MaxPend = 2
  Recent = 0
  Every = 0
  Cycles = 0
  TombstoneLeak = FALSE
VIEW GenView
ACTION_CONSTRAINT Emit
CHECK_DEADLOCK FALSE
