------------------------------- MODULE StateDB -------------------------------
(***************************************************************************)
(* The EVM state interface (property C16).                                  *)
(*                                                                         *)
(* Reference semantics of the calls the EVM makes on its state (go-ethereum *)
(* core/vm.StateDB as implemented by core/state.StateDB v1.10.8), which     *)
(* vm/statedb.go, vm/state_objects.go and vm/journal.go of the chain's      *)
(* adapter must reproduce on top of the chain state.  Two layers:           *)
(*                                                                         *)
(* 1. Result(s, o) / Effect(s, o): what call o returns in abstract state s  *)
(*    and the state after it.  A snapshot is a copy of the state, reverting *)
(*    restores the copy - the meaning, not the mechanism.  Traces of both   *)
(*    implementations (the adapter and go-ethereum's own state) are         *)
(*    validated against these operators by StateDB_Trace.                   *)
(*                                                                         *)
(* 2. A bounded model of the mechanism: a journal of undo entries, reverted *)
(*    in reverse order (JSpec).  TLC checks that the journalled state       *)
(*    always equals the abstract one (InvJournalRefines), i.e. that         *)
(*    "journal entry for every mutation, reverted in reverse order" does    *)
(*    implement snapshots; the deviations drop an entry or an undo.         *)
(*                                                                         *)
(* s.acc[a]  account a: ex (exists), bal, nonce, code, st (slot -> value,   *)
(*           absent = zero), sui (self-destructed in this transaction)      *)
(* s.cst[a]  storage of a as committed at the last Finalise (or empty when  *)
(*           the account object was created in this transaction)            *)
(* s.dirty   accounts touched by a mutation in this transaction             *)
(* s.refund, s.logs, s.alA / s.alS (access list), s.snaps                   *)
(* Values of storage, code and log data are opaque strings; "0" is the zero *)
(* word, "" no code.                                                        *)
(***************************************************************************)
EXTENDS Integers, Sequences, FiniteSets, TLC

NoAcc == [ex |-> FALSE, bal |-> 0, nonce |-> 0, code |-> "", st |-> <<>>, sui |-> FALSE]
Acc(s, a) == IF a \in DOMAIN s.acc THEN s.acc[a] ELSE NoAcc
Slot(f, k) == IF k \in DOMAIN f THEN f[k] ELSE "0"
Cst(s, a) == IF a \in DOMAIN s.cst THEN s.cst[a] ELSE <<>>
Put(f, k, x) == [y \in DOMAIN f \cup {k} |-> IF y = k THEN x ELSE f[y]]
PutAcc(s, a, r) == [s EXCEPT !.acc = Put(@, a, r)]
Dirty(s, a) == [s EXCEPT !.dirty = @ \cup {a}]
IsEmpty(r) == r.nonce = 0 /\ r.bal = 0 /\ r.code = ""
B(x) == IF x THEN "true" ELSE "false"

(* the object a mutation works on: created on demand.                                                            *)
(* dv = TRUE transcribes a recorded deviation of the adapter ("storage survives"): the storage records of an     *)
(* account are neither removed when the account is (self-destruction, empty account) nor hidden when the account *)
(* object is created anew - a new object at the address reads the old committed storage.                         *)
LiveD(s, a, dv) == IF Acc(s, a).ex THEN s
                   ELSE IF dv THEN Dirty(PutAcc(s, a, [NoAcc EXCEPT !.ex = TRUE, !.st = Cst(s, a)]), a)
                   ELSE Dirty([PutAcc(s, a, [NoAcc EXCEPT !.ex = TRUE]) EXCEPT !.cst = Put(@, a, <<>>)], a)

Snap(s) == [acc |-> s.acc, cst |-> s.cst, dirty |-> s.dirty, refund |-> s.refund, logs |-> s.logs, alA |-> s.alA, alS |-> s.alS]
HasSnap(s, id) == \E i \in 1..Len(s.snaps) : s.snaps[i].id = id
SnapIdx(s, id) == CHOOSE i \in 1..Len(s.snaps) : s.snaps[i].id = id

(* ---- what a call returns ("" for calls without a result) ---- *)
Result(s, o) ==
  LET r == Acc(s, o.a) IN
  CASE o.op = "GetBalance" -> ToString(r.bal)
    [] o.op = "GetNonce" -> ToString(r.nonce)
    [] o.op = "GetCode" -> r.code
    [] o.op = "GetCodeHash" -> IF ~r.ex THEN "none" ELSE IF r.code = "" THEN "empty" ELSE r.code
    [] o.op = "GetCodeSize" -> r.code
    [] o.op = "GetState" -> Slot(r.st, o.k)
    [] o.op = "GetCommittedState" -> IF r.ex THEN Slot(Cst(s, o.a), o.k) ELSE "0"
    [] o.op = "GetRefund" -> ToString(s.refund)
    [] o.op = "Exist" -> B(r.ex)
    [] o.op = "Empty" -> B(~r.ex \/ IsEmpty(r))
    [] o.op = "HasSuicided" -> B(r.ex /\ r.sui)
    [] o.op = "Suicide" -> B(r.ex)
    [] o.op = "AddressInAccessList" -> B(o.a \in s.alA)
    [] o.op = "SlotInAccessList" -> B(o.a \in s.alA) \o "," \o B(<<o.a, o.k>> \in s.alS)
    [] o.op = "GetTxLogs" -> ToString(Len(s.logs))
    [] o.op = "Snapshot" -> o.r                      \* any identifier not in use (Legal)
    [] OTHER -> ""

(* calls whose arguments the interface's users guarantee *)
Legal(s, o) ==
  CASE o.op = "SubBalance" -> Acc(s, o.a).bal >= o.n
    [] o.op = "SubRefund" -> s.refund >= o.n
    [] o.op = "RevertToSnapshot" -> HasSnap(s, o.id)
    [] o.op = "Snapshot" -> ~HasSnap(s, o.r)
    [] OTHER -> TRUE

(* ---- the state after a call ---- *)
EffectD(s, o, dv) ==
  LET l == LiveD(s, o.a, dv)
      r == Acc(l, o.a)
  IN
  CASE o.op = "CreateAccount" ->
         LET old == Acc(s, o.a)
             s1 == PutAcc(s, o.a, [NoAcc EXCEPT !.ex = TRUE, !.bal = old.bal, !.st = IF dv THEN Cst(s, o.a) ELSE <<>>])
             s2 == IF old.ex THEN s1 ELSE Dirty(s1, o.a)
         IN IF dv THEN s2 ELSE [s2 EXCEPT !.cst = Put(@, o.a, <<>>)]
    [] o.op = "AddBalance" ->
         IF o.n = 0 THEN (IF IsEmpty(r) THEN Dirty(l, o.a) ELSE l)
         ELSE Dirty(PutAcc(l, o.a, [r EXCEPT !.bal = @ + o.n]), o.a)
    [] o.op = "SubBalance" -> IF o.n = 0 THEN l ELSE Dirty(PutAcc(l, o.a, [r EXCEPT !.bal = @ - o.n]), o.a)
    [] o.op = "SetNonce" -> Dirty(PutAcc(l, o.a, [r EXCEPT !.nonce = o.n]), o.a)
    [] o.op = "SetCode" -> Dirty(PutAcc(l, o.a, [r EXCEPT !.code = o.v]), o.a)
    [] o.op = "SetState" -> IF Slot(r.st, o.k) = o.v THEN l ELSE Dirty(PutAcc(l, o.a, [r EXCEPT !.st = Put(@, o.k, o.v)]), o.a)
    [] o.op = "Suicide" -> IF ~Acc(s, o.a).ex THEN s ELSE Dirty(PutAcc(s, o.a, [Acc(s, o.a) EXCEPT !.sui = TRUE, !.bal = 0]), o.a)
    [] o.op = "AddRefund" -> [s EXCEPT !.refund = @ + o.n]
    [] o.op = "SubRefund" -> [s EXCEPT !.refund = @ - o.n]
    [] o.op = "AddLog" -> [s EXCEPT !.logs = Append(@, <<o.a, o.v>>)]
    [] o.op = "AddAddressToAccessList" -> [s EXCEPT !.alA = @ \cup {o.a}]
    [] o.op = "AddSlotToAccessList" -> [s EXCEPT !.alA = @ \cup {o.a}, !.alS = @ \cup {<<o.a, o.k>>}]
    [] o.op = "Snapshot" -> [s EXCEPT !.snaps = Append(@, [id |-> o.r, w |-> Snap(s)])]
    [] o.op = "RevertToSnapshot" ->
         LET i == SnapIdx(s, o.id)
             w == s.snaps[i].w
         IN [s EXCEPT !.acc = w.acc, !.cst = w.cst, !.dirty = w.dirty, !.refund = w.refund, !.logs = w.logs, !.alA = w.alA, !.alS = w.alS,
                      !.snaps = SubSeq(@, 1, i - 1)]
    [] o.op = "Prepare" -> [s EXCEPT !.logs = <<>>, !.alA = {}, !.alS = {}]      \* a new transaction hash
    [] o.op = "Finalise" ->       \* end of a transaction: self-destructed and touched-empty accounts go, the rest is committed
         LET gone == {a \in s.dirty : Acc(s, a).sui \/ IsEmpty(Acc(s, a))}
             acc2 == [a \in DOMAIN s.acc |-> IF a \in gone THEN NoAcc ELSE [s.acc[a] EXCEPT !.sui = FALSE]]
             cst2 == [a \in DOMAIN acc2 \cup (IF dv THEN DOMAIN s.cst ELSE {}) |->
                        IF dv /\ (a \in gone \/ a \notin DOMAIN acc2 \/ ~acc2[a].ex) THEN Cst(s, a) ELSE acc2[a].st]
         IN [s EXCEPT !.acc = acc2, !.cst = cst2, !.dirty = {}, !.refund = 0, !.snaps = <<>>]
    [] OTHER -> s                                     \* getters, EndBlock
Effect(s, o) == EffectD(s, o, FALSE)

Empty0 == [acc |-> <<>>, cst |-> <<>>, dirty |-> {}, refund |-> 0, logs |-> <<>>, alA |-> {}, alS |-> {}, snaps |-> <<>>]
Visible(s) == [acc |-> [a \in {x \in DOMAIN s.acc : s.acc[x].ex} |-> s.acc[a]], refund |-> s.refund, logs |-> s.logs, alA |-> s.alA, alS |-> s.alS, dirty |-> s.dirty]

(***************************************************************************)
(* Bounded model of the mechanism: the journal.                             *)
(* js is the journalled state: the same fields, but instead of copies in    *)
(* snaps it keeps jr, a sequence of undo entries, and revs, the journal     *)
(* length at each snapshot.  An undo entry records the previous value of    *)
(* what one mutation changed.                                               *)
(***************************************************************************)
CONSTANTS Addrs, Slots, Vals, Nums, MaxOps, Deviations

VARIABLES as, js, jr, revs, nops
jvars == <<as, js, jr, revs, nops>>

Op(op, a, k, v, n, id, r) == [op |-> op, a |-> a, k |-> k, v |-> v, n |-> n, id |-> id, r |-> r]
Mutations ==
  {Op(m, a, "", "", n, 0, "") : m \in {"AddBalance", "SubBalance", "SetNonce", "AddRefund", "SubRefund"}, a \in Addrs, n \in Nums}
  \cup {Op("SetState", a, k, v, 0, 0, "") : a \in Addrs, k \in Slots, v \in Vals}
  \cup {Op("SetCode", a, "", v, 0, 0, "") : a \in Addrs, v \in Vals \ {"0"}}
  \cup {Op(m, a, "", "", 0, 0, "") : m \in {"CreateAccount", "Suicide", "AddAddressToAccessList"}, a \in Addrs}
  \cup {Op("AddSlotToAccessList", a, k, "", 0, 0, "") : a \in Addrs, k \in Slots}
  \cup {Op("AddLog", a, "", v, 0, 0, "") : a \in Addrs, v \in Vals}

(* the undo entry of a mutation: the fields it may change, as they were *)
Undo(s, o) == [a |-> o.a, acc |-> Acc(s, o.a), hadAcc |-> o.a \in DOMAIN s.acc, cst |-> Cst(s, o.a), hadCst |-> o.a \in DOMAIN s.cst,
               dirty |-> s.dirty, refund |-> s.refund, logs |-> s.logs, alA |-> s.alA, alS |-> s.alS]
ApplyUndo(s, u) ==
  [s EXCEPT !.acc = IF u.hadAcc THEN Put(@, u.a, u.acc) ELSE [x \in DOMAIN @ \ {u.a} |-> @[x]],
            !.cst = IF u.hadCst THEN Put(@, u.a, u.cst) ELSE [x \in DOMAIN @ \ {u.a} |-> @[x]],
            !.dirty = u.dirty, !.refund = u.refund, !.logs = u.logs, !.alA = u.alA, !.alS = u.alS]
RECURSIVE Unwind(_, _, _)
Unwind(s, j, to) == IF Len(j) <= to THEN s ELSE Unwind(ApplyUndo(s, j[Len(j)]), SubSeq(j, 1, Len(j) - 1), to)

JInit == as = Empty0 /\ js = Empty0 /\ jr = <<>> /\ revs = <<>> /\ nops = 0
Count == nops < MaxOps /\ nops' = nops + 1
JMutate(o) ==
  /\ Count /\ Legal(as, o)
  /\ as' = Effect(as, o)
  /\ js' = Effect(js, o)
  /\ jr' = IF "noUndoForNonce" \in Deviations /\ o.op = "SetNonce" THEN jr ELSE Append(jr, Undo(js, o))
  /\ revs' = revs
JSnapshot ==
  /\ Count
  /\ as' = Effect(as, Op("Snapshot", "", "", "", 0, 0, ToString(nops)))
  /\ revs' = Append(revs, [id |-> ToString(nops), at |-> Len(jr)])
  /\ UNCHANGED <<js, jr>>
JRevert(i) ==
  /\ Count /\ i \in 1..Len(revs)
  /\ as' = Effect(as, Op("RevertToSnapshot", "", "", "", 0, revs[i].id, ""))
  /\ js' = IF "revertOldestFirst" \in Deviations
           THEN LET RECURSIVE Fwd(_, _) Fwd(s, k) == IF k > Len(jr) THEN s ELSE Fwd(ApplyUndo(s, jr[k]), k + 1) IN Fwd(js, revs[i].at + 1)
           ELSE Unwind(js, jr, revs[i].at)
  /\ jr' = SubSeq(jr, 1, revs[i].at)
  /\ revs' = SubSeq(revs, 1, i - 1)
JFinalise ==
  /\ Count
  /\ as' = Effect(as, Op("Finalise", "", "", "", 0, 0, ""))
  /\ js' = Effect(js, Op("Finalise", "", "", "", 0, 0, ""))
  /\ jr' = <<>> /\ revs' = <<>>
JNext == (\E o \in Mutations : JMutate(o)) \/ JSnapshot \/ (\E i \in 1..Len(revs) : JRevert(i)) \/ JFinalise
JSpec == JInit /\ [][JNext]_jvars

InvJournalRefines == Visible(js) = Visible(as) /\ js.cst = as.cst
InvBalancesNonNegative == \A a \in DOMAIN as.acc : as.acc[a].bal >= 0
JView == <<as, js, jr, revs>>
=============================================================================
