------------------------------ MODULE Bid_Trace ------------------------------
(* Trace validation of the bid application.  Every line is the projection of all         *)
(* conversation records, active offers, OLT balances and registry records of the real    *)
(* application after InitChain or after a block, with the block's accepted bid requests  *)
(* (delivery order, fee charged) and the block's time.  TLC re-computes the block by      *)
(* folding the accepted requests with the Can*/Do* operators of module Bid and the        *)
(* block-end expiry, and compares.                                                        *)
(*                                                                                       *)
(* Two kinds of findings are told apart by their names:                                   *)
(*   Value.*  what C02 says about escrow: nothing negative, no accepted request with a    *)
(*            negative amount, and balances plus escrow of the accounts the block's bid   *)
(*            requests are about change by the fees only;                                 *)
(*   Name.*   what C20 says about a registered name that changes hands through a deal (judged by check C20);      *)
(*   Conf.*   the code's conformance to module Bid beyond that (who may do what, which    *)
(*            store a conversation ends in, who gets the refund): reported as notes, not   *)
(*            as violations of a listed property.                                         *)
EXTENDS Bid, Json, SequencesExt

Trace == ndJsonDeserialize("trace.ndjson")

VARIABLES l, cur, nviol
tvars == <<st, hh, begun, l, cur, nviol>>
Ev == Trace[l]

Report(name, ok) ==
  IF ok THEN 0 ELSE IF PrintT(<<"PROPERTY-VIOLATED", name, "line", l, "trace", Ev.t, "h", Ev.h>>) THEN 1 ELSE 1

Logged(e) == e.s
Skip == ToSet(Ev.skip)
TEnv == [h |-> Ev.h, now |-> Ev.now, ver |-> Ev.h - 1,
         committed |-> {id \in DOMAIN st.conv : st.conv[id].st = "active"} \ Skip]

DoFee(s, a, f) == [s EXCEPT !.bal = Add(@, a, -f)]
Arg(x) == [by |-> x.by, owner |-> x.owner, asset |-> x.asset, atype |-> x.atype, amt |-> x.amt, dl |-> x.dl, id |-> x.id, new |-> x.new, dec |-> x.dec]

RECURSIVE Fold(_, _, _, _)
Fold(s, txs, i, bad) ==
  IF i > Len(txs) THEN [s |-> s, bad |-> bad]
  ELSE LET x == Arg(txs[i])
           f == DoFee(s, txs[i].payer, txs[i].fee)
           e == TEnv
           k == txs[i].k
       IN
    IF x.id \in Skip THEN Fold(f, txs, i + 1, bad)
    ELSE
    CASE k = "BID_CREATE" -> IF CanCreate(s, e, x) THEN Fold(DoCreate(f, e, x), txs, i + 1, bad)
                             ELSE Fold(f, txs, i + 1, bad \cup {IF x.amt < 0 THEN "negative" ELSE "create"})
      [] k = "BID_COUNTER" -> IF CanCounter(s, e, x) THEN Fold(DoCounter(f, e, x), txs, i + 1, bad)
                              ELSE Fold(f, txs, i + 1, bad \cup {IF x.amt < 0 THEN "negative" ELSE "counter"})
      [] k = "BID_BIDDER_DEC" -> IF CanBidderDec(s, e, x) THEN Fold(DoBidderDec(f, e, x), txs, i + 1, bad) ELSE Fold(f, txs, i + 1, bad \cup {"bidderdec"})
      [] k = "BID_OWNER_DEC" -> IF CanOwnerDec(s, e, x) THEN Fold(DoOwnerDec(f, e, x), txs, i + 1, bad) ELSE Fold(f, txs, i + 1, bad \cup {"ownerdec"})
      [] k = "BID_CANCEL" -> IF CanCancel(s, e, x) THEN Fold(DoCancel(f, e, x), txs, i + 1, bad) ELSE Fold(f, txs, i + 1, bad \cup {"cancel"})
      [] k = "BID_EXPIRE" -> IF CanExpire(s, e, x) THEN Fold(DoExpire(f, e, x), txs, i + 1, bad) ELSE Fold(f, txs, i + 1, bad \cup {"expire"})
      [] OTHER -> Fold(f, txs, i + 1, bad)

EqOn(f, g, ks) == \A k \in ks : (k \in DOMAIN f <=> k \in DOMAIN g) /\ (k \in DOMAIN f => f[k] = g[k])
EqBal(f, g, skip) == \A k \in (DOMAIN f \cup DOMAIN g) \ skip : Get(f, k) = Get(g, k)
(* balances of the accounts in ks plus everything held in escrow *)
Worth(s, ks) == SumOver([a \in ks |-> Get(s.bal, a)], ks) + Escrow(s)
RECURSIVE FeeSum(_, _)
FeeSum(txs, i) == IF i > Len(txs) THEN 0 ELSE txs[i].fee + FeeSum(txs, i + 1)

(* C20's part: a registered name that no registry request touched in this block changes its owner only through an   *)
(* accepted deal of a conversation about it: to that conversation's bidder, from the owner the conversation names, *)
(* either by the owner's own accepting decision or by the bidder accepting the owner's counter offer and paying it. *)
RECURSIVE FeesOf(_, _, _)
FeesOf(txs, i, a) == IF i > Len(txs) THEN 0 ELSE (IF txs[i].payer = a THEN txs[i].fee ELSE 0) + FeesOf(txs, i + 1, a)
DealFor(n, lg) ==
  \E i \in 1..Len(Ev.txs) :
    LET x == Ev.txs[i] IN
    /\ x.k \in {"BID_BIDDER_DEC", "BID_OWNER_DEC"} /\ x.dec = 1
    /\ x.id \in DOMAIN lg.conv /\ lg.conv[x.id].st = "succeed" /\ lg.conv[x.id].asset = n /\ lg.conv[x.id].atype = "ons"
    /\ lg.dom[n].owner = lg.conv[x.id].bidder /\ lg.conv[x.id].owner = st.dom[n].owner
    /\ x.k = "BID_OWNER_DEC" => x.by = st.dom[n].owner
    /\ x.k = "BID_BIDDER_DEC" =>
         /\ x.by = lg.conv[x.id].bidder
         /\ (x.id \in DOMAIN st.offer /\ st.offer[x.id].type = "counter" /\ st.dom[n].owner \notin ToSet(Ev.other)) =>
              Get(lg.bal, st.dom[n].owner) >= Get(st.bal, st.dom[n].owner) + st.offer[x.id].amt - FeesOf(Ev.txs, 1, st.dom[n].owner)
OwnerChangesExplained(lg) ==
  \A n \in (DOMAIN st.dom \cap DOMAIN lg.dom) \ ToSet(Ev.skipa) : lg.dom[n].owner # st.dom[n].owner => DealFor(n, lg)

TraceInit == st = [conv |-> <<>>, offer |-> <<>>, bal |-> <<>>, dom |-> <<>>] /\ hh = 0 /\ begun = {} /\ l = 1 /\ cur = 0 /\ nviol = 0

TraceStart ==
  /\ l <= Len(Trace) /\ Ev.ev = "Init"
  /\ l' = l + 1 /\ cur' = Ev.t /\ hh' = 0 /\ begun' = {} /\ st' = Logged(Ev) /\ nviol' = nviol

TraceBlock ==
  /\ l <= Len(Trace) /\ Ev.ev = "Block" /\ Ev.t = cur
  /\ l' = l + 1 /\ cur' = cur /\ hh' = Ev.h /\ begun' = {}
  /\ LET f == Fold(st, Ev.txs, 1, {})
         c == DoBlockEnd(f.s, TEnv)
         lg == Logged(Ev)
         clean == f.bad = {}
         ids == (DOMAIN c.conv \cup DOMAIN lg.conv) \ Skip
         oids == (DOMAIN c.offer \cup DOMAIN lg.offer) \ Skip
         names == (DOMAIN c.dom \cup DOMAIN lg.dom) \ ToSet(Ev.skipa)
         other == ToSet(Ev.other)
         quiet == Ev.other = <<>> /\ Ev.skip = <<>>       \* the block held bid requests only: all balances are explained by them
         all == DOMAIN st.bal \cup DOMAIN lg.bal
     IN /\ st' = lg
        /\ nviol' = nviol
             + Report("Value.AcceptedAmountNotNegative", "negative" \notin f.bad)
             + Report("Value.NonNegative", \A id \in DOMAIN lg.offer : lg.offer[id].amt >= 0)
             + Report("Value.EscrowConserved", ~quiet \/ Worth(lg, all) = Worth(st, all) - FeeSum(Ev.txs, 1))
             + Report("Name.ChangesHandsOnlyByAcceptedDeal", OwnerChangesExplained(lg))
             + Report("Conf.AcceptedCreateAllowed", "create" \notin f.bad)
             + Report("Conf.AcceptedCounterAllowed", "counter" \notin f.bad)
             + Report("Conf.AcceptedBidderDecisionAllowed", "bidderdec" \notin f.bad)
             + Report("Conf.AcceptedOwnerDecisionAllowed", "ownerdec" \notin f.bad)
             + Report("Conf.AcceptedCancelAllowed", "cancel" \notin f.bad)
             + Report("Conf.AcceptedExpireAllowed", "expire" \notin f.bad)
             + Report("Conf.Conversations.exact", ~clean \/ EqOn(c.conv, lg.conv, ids))
             + Report("Conf.Offers.exact", ~clean \/ EqOn(c.offer, lg.offer, oids))
             + Report("Conf.Balances.exact", ~clean \/ EqBal(c.bal, lg.bal, other))
             + Report("Conf.Assets.exact", ~clean \/ EqOn(c.dom, lg.dom, names))
             + Report("Conf.OfferIffActive", OfferIffActive(lg))

TraceNext == TraceStart \/ TraceBlock
TraceSpec == TraceInit /\ [][TraceNext]_tvars

TraceAccepted ==
  LET d == TLCGet("stats").diameter
      want == Len(Trace) + 1
  IN IF d = want THEN TRUE ELSE Print(<<"TRACE-REJECTED matched-states", d, "of", want>>, FALSE)
=============================================================================
