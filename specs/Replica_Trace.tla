---------------------------- MODULE Replica_Trace ----------------------------
(* Trace validation for Replica: transcripts of several executions of the real       *)
(* application that must agree (replicas with different identities and roles, a twin  *)
(* without the failed transactions, a twin with injected CheckTx calls, a twin that   *)
(* crashed and was restarted).  Every line is one event of one execution:             *)
(*   Init    - ResponseInitChain.Validators                                           *)
(*   Block   - the result of block h: application hash, validator updates, the        *)
(*             per-transaction results that the compared executions have in common    *)
(*   Restart - what Info reported after a restart, and the last completed commit      *)
(* TLC keeps the first result seen for every height (canon) and evaluates Agreement   *)
(* and RestartInfo of module Replica on every further event.  Violations are printed  *)
(* and validation continues.                                                           *)
EXTENDS Integers, Sequences, FiniteSets, TLC, Json

Trace == ndJsonDeserialize("trace.ndjson")

VARIABLES l, cur, canon, cinit, nviol

tvars == <<l, cur, canon, cinit, nviol>>

Ev == Trace[l]

Report(name, ok) ==
  IF ok THEN 0 ELSE IF PrintT(<<"PROPERTY-VIOLATED", name, "line", l, "trace", Ev.t, "h", Ev.h>>) THEN 1 ELSE 1

TraceInit == l = 1 /\ cur = 0 /\ canon = <<>> /\ cinit = "" /\ nviol = 0

Reset == IF Ev.t # cur THEN [canon |-> <<>>, cinit |-> ""] ELSE [canon |-> canon, cinit |-> cinit]

TraceInitChain ==
  /\ l <= Len(Trace) /\ Ev.ev = "Init"
  /\ l' = l + 1 /\ cur' = Ev.t
  /\ canon' = Reset.canon
  /\ cinit' = IF Reset.cinit = "" THEN Ev.vals ELSE Reset.cinit
  /\ nviol' = nviol + Report("Agreement.initchain", Reset.cinit = "" \/ Reset.cinit = Ev.vals)

TraceBlock ==
  /\ l <= Len(Trace) /\ Ev.ev = "Block"
  /\ l' = l + 1 /\ cur' = Ev.t /\ cinit' = Reset.cinit
  /\ LET c == Reset.canon IN
     IF Ev.h = Len(c) + 1
     THEN canon' = Append(c, Ev.res) /\ nviol' = nviol
     ELSE IF Ev.h <= Len(c)
     THEN /\ canon' = c
          /\ nviol' = nviol + Report("Agreement.hash", c[Ev.h].hash = Ev.res.hash)
                            + Report("Agreement.updates", c[Ev.h].upd = Ev.res.upd)
                            + Report("Agreement.txresults", c[Ev.h].txs = Ev.res.txs)
     ELSE canon' = c /\ nviol' = nviol + Report("Agreement.gap", FALSE)

TraceRestart ==
  /\ l <= Len(Trace) /\ Ev.ev = "Restart"
  /\ l' = l + 1 /\ cur' = Ev.t /\ cinit' = Reset.cinit /\ canon' = Reset.canon
  /\ nviol' = nviol + Report("RestartInfo.height", Ev.info_h = Ev.want_h)
                    + Report("RestartInfo.hash", Ev.info_hash = Ev.want_hash)

TraceNext == TraceInitChain \/ TraceBlock \/ TraceRestart
TraceSpec == TraceInit /\ [][TraceNext]_tvars

TraceAccepted ==
  LET d == TLCGet("stats").diameter
      want == Len(Trace) + 1
  IN IF d = want THEN TRUE ELSE Print(<<"TRACE-REJECTED matched-states", d, "of", want>>, FALSE)
=============================================================================
