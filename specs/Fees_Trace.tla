----------------------------- MODULE Fees_Trace -----------------------------
(* Trace validation of the fee pool (module Fees).  Every line is one block of the real   *)
(* application: the pool and the fee shares (by stake address) before and after the block, *)
(* the validator records of the previous block (power and stake address), the fees charged *)
(* by the block's accepted transactions (gas used x price, as answered by DeliverTx), the   *)
(* minimal fee in force, and the request kinds accepted in the block that pay into the pool *)
(* besides their fee (name registrations, renewals and purchases, proposal pay-outs).       *)
(*                                                                                          *)
(* What reached the end-of-block routine is T = pool after + all share increments.          *)
(*   Value.PoolFedByFees      T - pool before <= the fees charged: nothing enters the pool   *)
(*                            or the shares that nobody paid (not judged when the block      *)
(*                            accepted a kind that pays into the pool besides its fee)       *)
(*   Value.NonNegative        no negative pool or share                                     *)
(*   Conf.PoolGetsAllFees     T - pool before = the fees charged (>= with other inflows)    *)
(*   Conf.SharesNeverFall     no request takes value out of a fee share                     *)
(*   Conf.DistributionByPower every stake address is credited exactly what module Fees'     *)
(*                            rule gives for T, the previous block's powers and the minimal *)
(*                            fee - nothing at height 1, nothing when T <= minimal fee      *)
(* Value.* parts are consequences of the listed property C02 (no value appears in the pool  *)
(* or the shares that nobody paid); Conf.* is the distribution rule of the specification.   *)
EXTENDS Fees, Json, SequencesExt

Trace == ndJsonDeserialize("trace.ndjson")

VARIABLES l, nviol
tvars == <<l, nviol, fvars>>
Ev == Trace[l]

Report(name, ok) ==
  IF ok THEN 0 ELSE IF PrintT(<<"PROPERTY-VIOLATED", name, "line", l, "trace", Ev.t, "h", Ev.h>>) THEN 1 ELSE 1

Idle == bal = <<>> /\ pool = 0 /\ share = <<>> /\ power = <<>> /\ steps = 0
TraceInit == l = 1 /\ nviol = 0 /\ Idle

TraceBlock ==
  /\ l <= Len(Trace) /\ Ev.ev = "Block"
  /\ l' = l + 1 /\ UNCHANGED fvars
  /\ LET owners == DOMAIN Ev.share0 \cup DOMAIN Ev.share1
         delta == [o \in owners |-> Get(Ev.share1, o) - Get(Ev.share0, o)]
         T == Ev.pool1 + Sum(delta)
         pw == [v \in DOMAIN Ev.vals |-> Ev.vals[v].power]
         ow == [v \in DOMAIN Ev.vals |-> Ev.vals[v].owner]
         inc == IF Ev.h > 1 THEN Increments(T, Ev.minFee, pw) ELSE [v \in DOMAIN pw |-> 0]
         want == IncByOwner(inc, ow)
     IN nviol' = nviol
          + Report("Value.PoolFedByFees", Ev.other # <<>> \/ T - Ev.pool0 <= Ev.fees)
          + Report("Value.NonNegative", Ev.pool1 >= 0 /\ \A o \in DOMAIN Ev.share1 : Ev.share1[o] >= 0)
          + Report("Conf.PoolGetsAllFees", IF Ev.other = <<>> THEN T - Ev.pool0 = Ev.fees ELSE T - Ev.pool0 >= Ev.fees)
          + Report("Conf.SharesNeverFall", \A o \in owners : delta[o] >= 0)
          + Report("Conf.DistributionByPower", Ev.big \/ \A o \in owners \cup DOMAIN want : Get(delta, o) = Get(want, o))

TraceNext == TraceBlock
TraceSpec == TraceInit /\ [][TraceNext]_tvars

TraceAccepted ==
  LET d == TLCGet("stats").diameter
      want == Len(Trace) + 1
  IN IF d = want THEN TRUE ELSE Print(<<"TRACE-REJECTED matched-states", d, "of", want>>, FALSE)
=============================================================================
