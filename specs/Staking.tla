------------------------------- MODULE Staking -------------------------------
(***************************************************************************)
(* Stake lifecycle (property C11).                                         *)
(*                                                                         *)
(* Transcribes data/delegation/store.go (Stake/AddToAddress, Unstake/      *)
(* MinusFromAddress, Withdraw, UpdateWithdrawReward), the guards of        *)
(* action/staking/{stake,unstake,withdraw}.go that the property names      *)
(* (frozen validator, amounts) and the block-end maturity hook of          *)
(* identity/validator_set.go GetEndBlockUpdate.                             *)
(*                                                                         *)
(* The state is one record s so that a block (a sequence of accepted       *)
(* transactions followed by the block-end hook) can be composed            *)
(* functionally - the same operators are used as actions of the bounded    *)
(* model below and to re-compute every block of a real trace               *)
(* (Staking_Trace).                                                         *)
(*   s.eff[v][d]   effective (locked) stake of delegator d with validator v *)
(*   s.tot[v]      the validator's recorded total                           *)
(*   s.mat[h][d]   unstaked amount of d maturing at the end of block h      *)
(*   s.bnd[d]      matured, withdrawable amount of d                        *)
(*   s.frozen      validators that are frozen                               *)
(*   s.staked[d], s.withdrawn[d], s.slashed[d]   history                    *)
(* Amounts are whole OLT.  Missing map entries read as 0.                   *)
(***************************************************************************)
EXTENDS Integers, Sequences, FiniteSets, TLC

Get(f, k) == IF k \in DOMAIN f THEN f[k] ELSE 0
Get2(f, a, b) == IF a \in DOMAIN f THEN Get(f[a], b) ELSE 0
Put(f, k, x) == [y \in DOMAIN f \cup {k} |-> IF y = k THEN x ELSE f[y]]
Put2(f, a, b, x) == Put(f, a, Put(IF a \in DOMAIN f THEN f[a] ELSE <<>>, b, x))

RECURSIVE SumF(_, _)
SumF(f, ks) == IF ks = {} THEN 0 ELSE LET k == CHOOSE x \in ks : TRUE IN f[k] + SumF(f, ks \ {k})
Sum(f) == SumF(f, DOMAIN f)

(* ---- guards (what the property requires of an accepted transaction) ---- *)
CanStake(s, v, d, a) == a >= 0 /\ v \notin s.frozen
CanUnstake(s, v, d, a) == a > 0 /\ v \notin s.frozen /\ Get2(s.eff, v, d) >= a
CanWithdraw(s, v, d, a) == a > 0 /\ v \notin s.frozen /\ Get(s.bnd, d) >= a

(* ---- effects ---- *)
DoStake(s, v, d, a) ==
  [s EXCEPT !.eff = Put2(@, v, d, Get2(@, v, d) + a), !.tot = Put(@, v, Get(@, v) + a),
            !.staked = Put(@, d, Get(@, d) + a)]

(* m = maturity height = block height + MaturityTime option at the time of the transaction *)
DoUnstake(s, v, d, a, m) ==
  [s EXCEPT !.eff = Put2(@, v, d, Get2(@, v, d) - a), !.tot = Put(@, v, Get(@, v) - a),
            !.mat = Put2(@, m, d, Get2(@, m, d) + a)]

DoWithdraw(s, v, d, a) ==
  [s EXCEPT !.bnd = Put(@, d, Get(@, d) - a), !.withdrawn = Put(@, d, Get(@, d) + a)]

(* block end at height h: everything maturing at h becomes withdrawable, the entry is cleared *)
DoMature(s, h) ==
  IF h \notin DOMAIN s.mat THEN s
  ELSE [s EXCEPT !.bnd = [d \in DOMAIN @ \cup DOMAIN s.mat[h] |-> Get(@, d) + Get(s.mat[h], d)],
                 !.mat = [x \in DOMAIN @ \ {h} |-> @[x]]]

(* a guilty verdict: a units of d's stake with v are taken away *)
DoSlash(s, v, d, a) ==
  [s EXCEPT !.eff = Put2(@, v, d, Get2(@, v, d) - a), !.tot = Put(@, v, Get(@, v) - a),
            !.slashed = Put(@, d, Get(@, d) + a), !.frozen = @ \cup {v}]

(* ---- invariants ---- *)
TotalIsSum(s) == \A v \in DOMAIN s.tot \cup DOMAIN s.eff :
                   Get(s.tot, v) = (IF v \in DOMAIN s.eff THEN Sum(s.eff[v]) ELSE 0)
NonNegative(s) == /\ \A v \in DOMAIN s.eff : \A d \in DOMAIN s.eff[v] : s.eff[v][d] >= 0
                  /\ \A d \in DOMAIN s.bnd : s.bnd[d] >= 0
                  /\ \A h \in DOMAIN s.mat : \A d \in DOMAIN s.mat[h] : s.mat[h][d] >= 0
WithdrawnBounded(s) == \A d \in DOMAIN s.withdrawn : s.withdrawn[d] <= Get(s.staked, d) - Get(s.slashed, d)

(***************************************************************************)
(* Bounded model.                                                           *)
(***************************************************************************)
CONSTANTS Vs, Ds, Amts, Maturity, MaxH

VARIABLES st, h, op

svars == <<st, h, op>>

Empty == [eff |-> <<>>, tot |-> <<>>, mat |-> <<>>, bnd |-> <<>>, frozen |-> {},
          staked |-> <<>>, withdrawn |-> <<>>, slashed |-> <<>>]

SInit == st = Empty /\ h = 1 /\ op = "init"

Stake(v, d, a) == CanStake(st, v, d, a) /\ st' = DoStake(st, v, d, a) /\ op' = "stake" /\ UNCHANGED h
Unstake(v, d, a) == CanUnstake(st, v, d, a) /\ st' = DoUnstake(st, v, d, a, h + Maturity) /\ op' = "unstake" /\ UNCHANGED h
Withdraw(v, d, a) == CanWithdraw(st, v, d, a) /\ st' = DoWithdraw(st, v, d, a) /\ op' = "withdraw" /\ UNCHANGED h
EndBlock == h < MaxH /\ st' = DoMature(st, h) /\ h' = h + 1 /\ op' = "endblock"
Slash(v, d, a) == v \notin st.frozen /\ Get2(st.eff, v, d) >= a /\ st' = DoSlash(st, v, d, a) /\ op' = "slash" /\ UNCHANGED h

SNext == \/ \E v \in Vs, d \in Ds, a \in Amts : Stake(v, d, a) \/ Unstake(v, d, a) \/ Withdraw(v, d, a) \/ Slash(v, d, a)
         \/ EndBlock
SSpec == SInit /\ [][SNext]_svars

InvTotalIsSum == TotalIsSum(st)
InvNonNegative == NonNegative(st)
InvWithdrawnBounded == WithdrawnBounded(st)
(* what was withdrawn had been unstaked and matured: bounded + withdrawn + still maturing + locked + slashed = staked *)
InvConservation == \A d \in Ds :
   Get(st.bnd, d) + Get(st.withdrawn, d) + Get(st.slashed, d)
   + SumF([x \in DOMAIN st.mat |-> Get(st.mat[x], d)], DOMAIN st.mat)
   + SumF([v \in DOMAIN st.eff |-> Get(st.eff[v], d)], DOMAIN st.eff) = Get(st.staked, d)
(* unstaked funds unlock only after the maturity period: nothing maturing at a height >= h is withdrawable yet *)
InvOnlyMatured == \A x \in DOMAIN st.mat : x >= h \/ \A d \in DOMAIN st.mat[x] : st.mat[x][d] = 0
StakeBound == \A d \in Ds : Get(st.staked, d) <= 3
=============================================================================
