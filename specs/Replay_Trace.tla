---------------------------- MODULE Replay_Trace ----------------------------
(* Trace validation for C05: every line is one resubmission of a transaction that the real *)
(* application executed in block h, in some encoding, some blocks later: the CheckTx code,  *)
(* the DeliverTx code when placed in a later block, and whether that block's application    *)
(* hash equals the hash of the same block without the resubmission.  The specification      *)
(* (Replay without deviations) says a known content is recognised whatever its encoding:    *)
(* the resubmission must be rejected by CheckTx and must change nothing when delivered.     *)
(* The same bytes are submitted once more in the block after the first resubmission was      *)
(* delivered and refused (check2, deliver2, sameHash2; -2 = not attempted): whatever the     *)
(* node recorded about the refused copy must not make it forget the execution.               *)
EXTENDS Replay, Sequences, Json

Trace == ndJsonDeserialize("trace.ndjson")
VARIABLES l, nviol
tvars == <<l, nviol, rvars>>
Ev == Trace[l]

Report(name, ok) ==
  IF ok THEN 0 ELSE IF PrintT(<<"PROPERTY-VIOLATED", name, "line", l, "trace", Ev.t, "h", Ev.h>>) THEN 1 ELSE 1

TraceInit == l = 1 /\ nviol = 0 /\ RInit
TraceStep ==
  /\ l <= Len(Trace) /\ l' = l + 1 /\ UNCHANGED rvars
  /\ nviol' = nviol + Report("NodeSurvives", Ev.check # -1 /\ Ev.deliver # -1 /\ Ev.check2 # -1 /\ Ev.deliver2 # -1)
                    + Report("SecondResubmissionRejectedByCheckTx", Ev.check2 # 0)
                    + Report("SecondResubmissionHasNoEffect", Ev.check2 < 0 \/ Ev.deliver2 < 0 \/ Ev.sameHash2)
                    + Report("ResubmissionRejectedByCheckTx", Ev.check # 0)
                    + Report("ResubmissionHasNoEffect", Ev.check = -1 \/ Ev.deliver = -1 \/ Ev.sameHash)
TraceSpec == TraceInit /\ [][TraceStep]_tvars
TraceAccepted ==
  LET d == TLCGet("stats").diameter want == Len(Trace) + 1
  IN IF d = want THEN TRUE ELSE Print(<<"TRACE-REJECTED matched-states", d, "of", want>>, FALSE)
=============================================================================
