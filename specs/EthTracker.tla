------------------------------ MODULE EthTracker ------------------------------
(***************************************************************************)
(* Cross-chain lock/redeem trackers (property C15).                         *)
(*                                                                         *)
(* Transcribes action/eth/{ext_lock,ext_redeem,check_finalty}.go and        *)
(* data/ethereum/tracker.go: a lock creates a tracker keyed by the external *)
(* transaction unless one is ongoing or completed (a failed one is          *)
(* replaced); a redeem debits owner and supply counter first and needs the  *)
(* external transaction to be unknown in all three stores; a finality       *)
(* report fills the slot of the witness whose index matches (a non-matching *)
(* address is ignored without error, an index beyond the list or a second   *)
(* vote of the address is an error); more than two thirds (floor(2n/3)+1)   *)
(* yes: a lock mints the locked amount - to the tracker's owner - and       *)
(* raises the supply counter, a redeem is released; more than two thirds    *)
(* no: a lock fails, a redeem is refunded to its owner.  Later reports      *)
(* return early.  Block end moves Released / Failed trackers to the passed  *)
(* / failed store.                                                           *)
(*   s.trk[x] = [store, type, owner, amt, wits (seq), votes (seq 0/1/2), done]*)
(*   s.bal[o]  wrapped balance; Supply is the counter address               *)
(* Deviation "mintToReported": the code credits the address named in the    *)
(* report that crosses the threshold (check_finalty.go mintTokens uses      *)
(* oltTx.Locker).                                                            *)
(***************************************************************************)
EXTENDS Integers, Sequences, FiniteSets, TLC

Supply == "pool:oneledgerSupplyAddress"

Get(f, k) == IF k \in DOMAIN f THEN f[k] ELSE 0
Put(f, k, x) == [y \in DOMAIN f \cup {k} |-> IF y = k THEN x ELSE f[y]]
Add(f, k, x) == Put(f, k, Get(f, k) + x)
Threshold(n) == (n * 2) \div 3 + 1
CountV(votes, c) == Cardinality({i \in DOMAIN votes : votes[i] = c})
IsFinal(t) == CountV(t.votes, 1) >= Threshold(Len(t.wits))
IsFailed(t) == CountV(t.votes, 2) >= Threshold(Len(t.wits))
Voted(t, w) == \E i \in DOMAIN t.wits : t.wits[i] = w /\ t.votes[i] # 0
Circulation(bal) == LET O == DOMAIN bal \ {Supply}
                        RECURSIVE S(_)
                        S(X) == IF X = {} THEN 0 ELSE LET o == CHOOSE y \in X : TRUE IN bal[o] + S(X \ {o})
                    IN S(O)

(* ---- guards (of accepted transactions) ---- *)
CanLock(s, x, amt, cap) == (IF x \notin DOMAIN s.trk THEN TRUE ELSE s.trk[x].store = "failed") /\ Get(s.bal, Supply) + amt <= cap
CanRedeem(s, x, o, amt) == x \notin DOMAIN s.trk /\ Get(s.bal, o) >= amt /\ Get(s.bal, Supply) >= amt
CanReport(s, x, w, idx) == /\ x \in DOMAIN s.trk /\ s.trk[x].store = "ongoing"
                           /\ (s.trk[x].done \/ (idx >= 0 /\ idx < Len(s.trk[x].wits) /\ ~Voted(s.trk[x], w)))

(* ---- effects ---- *)
NewTrk(type, o, amt, wits) == [store |-> "ongoing", type |-> type, owner |-> o, amt |-> amt, wits |-> wits,
                               votes |-> [i \in DOMAIN wits |-> 0], done |-> FALSE]
DoLock(s, x, o, amt, wits) == [s EXCEPT !.trk = Put(@, x, NewTrk("lock", o, amt, wits))]
DoRedeem(s, x, o, amt, wits) == [s EXCEPT !.trk = Put(@, x, NewTrk("redeem", o, amt, wits)),
                                          !.bal = Add(Add(@, o, -amt), Supply, -amt)]
(* payee: who receives a mint *)
DoReport(s, x, w, idx, ok, payee) ==
  LET t == s.trk[x] IN
  IF t.done THEN s
  ELSE LET t2 == IF t.wits[idx + 1] = w THEN [t EXCEPT !.votes[idx + 1] = IF ok THEN 1 ELSE 2] ELSE t IN
       IF IsFinal(t2)
       THEN [s EXCEPT !.trk[x] = [t2 EXCEPT !.done = TRUE],
                      !.bal = IF t.type = "lock" THEN Add(Add(@, payee, t.amt), Supply, t.amt) ELSE @]
       ELSE IF IsFailed(t2)
       THEN [s EXCEPT !.trk[x] = [t2 EXCEPT !.done = TRUE],
                      !.bal = IF t.type = "redeem" THEN Add(Add(@, t.owner, t.amt), Supply, t.amt) ELSE @]
       ELSE [s EXCEPT !.trk[x] = t2]

SupplyEqualsCirculation(s) == Get(s.bal, Supply) = Circulation(s.bal)

(***************************************************************************)
(* Bounded model.                                                           *)
(***************************************************************************)
CONSTANTS Wits, Outsiders, Users, Deviations

VARIABLES st, minted, refunded
evars == <<st, minted, refunded>>

WSeq == CHOOSE q \in [1..Cardinality(Wits) -> Wits] : \A w \in Wits : \E i \in DOMAIN q : q[i] = w
Ext == {"L", "R"}
OwnerOf(x) == CHOOSE u \in Users : TRUE

EInit == /\ st = [trk |-> <<>>, bal |-> [o \in Users \cup {Supply} |-> IF o = Supply THEN Cardinality(Users) ELSE 1]]
         /\ minted = [x \in Ext |-> 0] /\ refunded = [x \in Ext |-> 0]

Lock == CanLock(st, "L", 1, 10) /\ st' = DoLock(st, "L", OwnerOf("L"), 1, WSeq) /\ UNCHANGED <<minted, refunded>>
Redeem == CanRedeem(st, "R", OwnerOf("R"), 1) /\ st' = DoRedeem(st, "R", OwnerOf("R"), 1, WSeq) /\ UNCHANGED <<minted, refunded>>
Report(x, w, idx, ok, claimed) ==
  /\ CanReport(st, x, w, idx)
  /\ LET payee == IF "mintToReported" \in Deviations THEN claimed ELSE st.trk[x].owner
         n == DoReport(st, x, w, idx, ok, payee)
     IN /\ st' = n
        /\ minted' = [minted EXCEPT ![x] = @ + IF ~st.trk[x].done /\ n.trk[x].done /\ st.trk[x].type = "lock" /\ IsFinal(n.trk[x]) THEN 1 ELSE 0]
        /\ refunded' = [refunded EXCEPT ![x] = @ + IF ~st.trk[x].done /\ n.trk[x].done /\ st.trk[x].type = "redeem" /\ IsFailed(n.trk[x]) THEN 1 ELSE 0]

ENext == Lock \/ Redeem \/ \E x \in Ext, w \in Wits \cup Outsiders, idx \in 0..(Cardinality(Wits) - 1), ok \in BOOLEAN, c \in Users : Report(x, w, idx, ok, c)
ESpec == EInit /\ [][ENext]_evars

InvSupply == SupplyEqualsCirculation(st)
InvAtMostOnce == \A x \in Ext : minted[x] <= 1 /\ refunded[x] <= 1
InvThreshold == \A x \in DOMAIN st.trk : (minted[x] = 1 => IsFinal(st.trk[x])) /\ (refunded[x] = 1 => IsFailed(st.trk[x]))
InvOnlyWitnessVotes == \A x \in DOMAIN st.trk : \A i \in DOMAIN st.trk[x].votes : st.trk[x].votes[i] # 0 => st.trk[x].wits[i] \in Wits
(* the mint goes to the account that submitted the lock: balances of other users never grow *)
InvMintToSubmitter == \A u \in Users : u # OwnerOf("L") => Get(st.bal, u) <= 1
=============================================================================
