------------------------- MODULE NetDelegation_Trace -------------------------
(* Trace validation of network delegation (C12).  Every line is the projection of the  *)
(* real application's delegation records and OLT balances after InitChain or after a    *)
(* block, with the block's accepted transactions (delivery order, fee charged) and the  *)
(* delegation reward the block reported.  TLC re-computes the block: BeginBlock pays    *)
(* the undelegations and reward withdrawals maturing at this height, then the accepted  *)
(* transactions apply with the effects of module NetDelegation; the result must equal   *)
(* the logged records - so an undelegated amount is paid exactly once, at height +      *)
(* maturity, into its delegator's balance and nobody else's.                            *)
EXTENDS NetDelegation, Json, SequencesExt

Trace == ndJsonDeserialize("trace.ndjson")

VARIABLES l, cur, nviol
tvars == <<st, h, paid, l, cur, nviol>>
Ev == Trace[l]

Report(name, ok) ==
  IF ok THEN 0 ELSE IF PrintT(<<"PROPERTY-VIOLATED", name, "line", l, "trace", Ev.t, "h", Ev.h>>) THEN 1 ELSE 1

Keys2(f) == UNION {{<<a, b>> : b \in DOMAIN f[a]} : a \in DOMAIN f}
Eq1(f, g) == \A k \in DOMAIN f \cup DOMAIN g : Get(f, k) = Get(g, k)
Eq2(f, g) == \A p \in Keys2(f) \cup Keys2(g) : Get2(f, p[1], p[2]) = Get2(g, p[1], p[2])

RECURSIVE Fold(_, _, _, _)
Fold(s, txs, i, bad) ==
  IF i > Len(txs) THEN [s |-> s, bad |-> bad]
  ELSE LET x == txs[i]
           m == ToString(Ev.h + Ev.maturity)
           f == DoFee(s, x.payer, x.fee)
       IN
    CASE x.k = "DELEGATE" -> Fold(DoDelegate(f, x.d, x.a), txs, i + 1, IF CanDelegate(s, x.d, x.a) THEN bad ELSE bad \cup {"delegate"})
      [] x.k = "UNDELEGATE" -> Fold(DoUndelegate(f, x.d, x.a, m), txs, i + 1, IF CanUndelegate(s, x.d, x.a) THEN bad ELSE bad \cup {"undelegate"})
      [] x.k = "DELEG_WITHDRAW" -> Fold(DoWithdrawRw(f, x.d, x.a, m), txs, i + 1, IF CanWithdrawRw(s, x.d, x.a) THEN bad ELSE bad \cup {"withdraw"})
      [] x.k = "DELEG_REINVEST" -> Fold(DoReinvest(f, x.d, x.a), txs, i + 1, IF CanReinvest(s, x.d, x.a) THEN bad ELSE bad \cup {"reinvest"})
      [] x.k = "SEND" -> Fold(DoSend(f, x.d, x.to, x.a), txs, i + 1, bad)
      [] OTHER -> Fold(f, txs, i + 1, bad)

Logged(e, don) == [act |-> e.s.act, pend |-> e.s.pend, claim |-> e.s.claim, cpend |-> e.s.cpend, bal |-> e.s.bal, donated |-> don]

TraceInit == /\ st = [act |-> <<>>, pend |-> <<>>, claim |-> <<>>, cpend |-> <<>>, bal |-> <<>>, donated |-> 0]
             /\ h = 0 /\ paid = <<>> /\ l = 1 /\ cur = 0 /\ nviol = 0

TraceStart ==
  /\ l <= Len(Trace) /\ Ev.ev = "Init"
  /\ l' = l + 1 /\ cur' = Ev.t /\ h' = 0 /\ paid' = <<>>
  /\ st' = Logged(Ev, 0)
  /\ nviol' = nviol + Report("PoolCovers", PoolCovers(Logged(Ev, 0)))

(* claims: the logged claim may exceed the computed one by reward accrual only, in total at most the reported reward *)
ClaimsWithinAllowance(c, lg, allow) ==
  /\ \A d \in DOMAIN c \cup DOMAIN lg : Get(lg, d) >= Get(c, d)
  /\ SumF([d \in DOMAIN c \cup DOMAIN lg |-> Get(lg, d) - Get(c, d)], DOMAIN c \cup DOMAIN lg) <= allow

TraceBlock ==
  /\ l <= Len(Trace) /\ Ev.ev = "Block" /\ Ev.t = cur
  /\ l' = l + 1 /\ cur' = cur /\ h' = Ev.h /\ paid' = paid
  /\ LET hk == ToString(Ev.h)
         b == DoPayClaims(DoPayPending(st, hk), hk)
         f == Fold(b, Ev.txs, 1, {})
         c == f.s
         lg == Logged(Ev, c.donated)
         known == Ev.other = <<>>
     IN /\ st' = lg
        /\ nviol' = nviol
             + Report("AcceptedDelegateAllowed", "delegate" \notin f.bad)
             + Report("AcceptedUndelegateAllowed", "undelegate" \notin f.bad)
             + Report("AcceptedRewardWithdrawWithinClaim", "withdraw" \notin f.bad)
             + Report("AcceptedReinvestWithinClaim", "reinvest" \notin f.bad)
             + Report("Active.exact", Eq1(c.act, Ev.s.act))
             + Report("Pending.paidExactlyAtMaturity", Eq2(c.pend, Ev.s.pend))
             + Report("RewardPending.paidExactlyAtMaturity", Eq2(c.cpend, Ev.s.cpend))
             + Report("Claims.withinAllowance", ClaimsWithinAllowance(c.claim, Ev.s.claim, Ev.allow))
             + Report("Balances.exact", ~known \/ Eq1(c.bal, Ev.s.bal))
             + Report("PoolCovers", PoolCovers(lg))
             + Report("NonNegative", NonNegative(lg))

TraceNext == TraceStart \/ TraceBlock
TraceSpec == TraceInit /\ [][TraceNext]_tvars

TraceAccepted ==
  LET d == TLCGet("stats").diameter
      want == Len(Trace) + 1
  IN IF d = want THEN TRUE ELSE Print(<<"TRACE-REJECTED matched-states", d, "of", want>>, FALSE)
=============================================================================
