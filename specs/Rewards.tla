------------------------------- MODULE Rewards -------------------------------
(***************************************************************************)
(* Block rewards (property C13).                                            *)
(*                                                                         *)
(* Transcribes data/rewards/calculator.go (Calculate and its helpers),      *)
(* store_cumulative.go (PullRewards, ConsumeRewards, year bookkeeping,      *)
(* matured balance, WithdrawRewards), store.go (reward chunks per interval) *)
(* and app/controller.go handleBlockRewards / getRewardForValidator.        *)
(*                                                                         *)
(* The per-block amount is written as a function of data fixed when the     *)
(* calculation cycle began (block times at the cycle's boundaries, what the *)
(* reward year had distributed till the last cycle): Amount(e, yrs).  The   *)
(* code caches it in memory for the cycle; a node restarted inside the      *)
(* cycle computes it again - the property says it must get the same number, *)
(* which is the case exactly when the code's computation is this function.  *)
(*                                                                         *)
(* e: environment of block h                                                *)
(*   e.h, e.times (block time in seconds of every height up to h), e.cycle, *)
(*   e.est (estimated seconds per cycle), e.window (year close window),     *)
(*   e.shares (supply of each reward year), e.closes (close time of each    *)
(*   year), e.burnout, e.interval (reward maturity interval), e.pool        *)
(*   (rewards pool balance), e.votes (validator, power, signed), e.deleg    *)
(*   (delegation pool balance > 0)                                          *)
(* s: reward records                                                        *)
(*   s.years[i] = [till, dist], s.total, s.chunk[v][i], s.matured[v],       *)
(*   s.withdrawn[v]                                                         *)
(***************************************************************************)
EXTENDS Integers, Sequences, FiniteSets, TLC

Get(f, k) == IF k \in DOMAIN f THEN f[k] ELSE 0
Get2(f, a, b) == IF a \in DOMAIN f THEN Get(f[a], b) ELSE 0
Put(f, k, x) == [y \in DOMAIN f \cup {k} |-> IF y = k THEN x ELSE f[y]]
Put2(f, a, b, x) == Put(f, a, Put(IF a \in DOMAIN f THEN f[a] ELSE <<>>, b, x))
Add(f, k, x) == Put(f, k, Get(f, k) + x)
Add2(f, a, b, x) == Put2(f, a, b, Get2(f, a, b) + x)
RECURSIVE SumSeq(_, _)
SumSeq(q, i) == IF i > Len(q) THEN 0 ELSE q[i] + SumSeq(q, i + 1)
Min2(a, b) == IF a < b THEN a ELSE b

(* ---- the calculation cycle ---- *)
FirstInCycle(e) == (e.h - 1) % e.cycle = 0
LastInCycle(e) == e.h % e.cycle = 0
CycleEnd(e) == ((e.h - 1) \div e.cycle) * e.cycle + 1          \* the first block of the cycle h is in
(* seconds the last completed cycle took, and the time the forecast starts from *)
SecsPerCycle(e) == IF e.h > e.cycle THEN e.times[CycleEnd(e)] - e.times[CycleEnd(e) - e.cycle] ELSE e.est
TEnd(e) == IF e.h > e.cycle THEN e.times[CycleEnd(e)] ELSE e.times[1]
(* forecast of the blocks left in reward year i; 0 when the year is inside its close window *)
BlocksLeft(e, i) == IF e.closes[i] - TEnd(e) >= e.window THEN ((e.closes[i] - TEnd(e)) * e.cycle) \div SecsPerCycle(e) ELSE 0
Candidates(e) == {i \in 1..Len(e.closes) : BlocksLeft(e, i) > 0}
Year(e) == IF Candidates(e) = {} THEN 0 ELSE CHOOSE i \in Candidates(e) : \A j \in Candidates(e) : i <= j
Burnedout(e) == Year(e) = 0
YearLeft(e, yrs) == e.shares[Year(e)] - yrs[Year(e)].till
(* no amount can be calculated when the year gave out more than its supply before it closed *)
Exhausted(e, yrs) == ~Burnedout(e) /\ YearLeft(e, yrs) < 0
Amount(e, yrs) == IF Burnedout(e) THEN e.burnout ELSE YearLeft(e, yrs) \div BlocksLeft(e, Year(e))
Pulled(e, yrs) == IF Burnedout(e) THEN Min2(Amount(e, yrs), e.pool) ELSE Amount(e, yrs)

(* ---- shares ---- *)
TotalPower(e) == SumSeq([i \in 1..Len(e.votes) |-> e.votes[i].p], 1)
(* floor(amount * power / total); the code scales validator power by 10^18 before adding the delegation pool's balance, *)
(* which at the amounts of the small genesis only matters when the division would be exact                             *)
Share(e, amt, p) ==
  IF TotalPower(e) = 0 THEN 0
  ELSE LET q == (amt * p) \div TotalPower(e) IN
       IF e.deleg /\ (amt * p) % TotalPower(e) = 0 /\ q > 0 THEN q - 1 ELSE q
Credit(e, yrs, i) == IF e.votes[i].signed /\ e.votes[i].known THEN Share(e, Pulled(e, yrs), e.votes[i].p) ELSE 0
Consumed(e, yrs) == SumSeq([i \in 1..Len(e.votes) |-> Credit(e, yrs, i)], 1)

(* ---- the block's effect on the reward records (BeginBlock) ---- *)
ChunkIdx(e) == e.h \div e.interval + 1
DoBlock(s, e) ==
  IF Exhausted(e, s.years) THEN s
  ELSE
  LET credited == [i \in 1..Len(e.votes) |-> Credit(e, s.years, i)]
      RECURSIVE AddAll(_, _)
      AddAll(ch, i) == IF i > Len(e.votes) THEN ch
                       ELSE AddAll(IF e.votes[i].signed /\ e.votes[i].known THEN Add2(ch, e.votes[i].v, ToString(ChunkIdx(e)), credited[i]) ELSE ch, i + 1)
      ch2 == AddAll(s.chunk, 1)
      mat == IF e.h % e.interval = 0
             THEN [v \in DOMAIN ch2 \cup DOMAIN s.matured |-> Get(s.matured, v) + Get2(ch2, v, ToString(ChunkIdx(e) - 2))]
             ELSE s.matured
      c == Consumed(e, s.years)
      y == Year(e)
      yrs2 == IF y = 0 THEN s.years
              ELSE [s.years EXCEPT ![y] = [dist |-> @.dist + c, till |-> IF LastInCycle(e) THEN @.dist + c ELSE @.till]]
  IN [s EXCEPT !.chunk = ch2, !.matured = mat, !.total = @ + c, !.years = yrs2]

(* ---- withdrawal of matured rewards ---- *)
CanWithdraw(s, v, a) == a >= 0 /\ Get(s.matured, v) >= a
DoWithdraw(s, v, a) == [s EXCEPT !.matured = Add(@, v, -a), !.withdrawn = Add(@, v, a)]

(* ---- properties of a block ---- *)
WithinPulled(e, yrs) == Consumed(e, yrs) <= Pulled(e, yrs)
WithinYear(e, yrs) == ~Burnedout(e) => Pulled(e, yrs) <= YearLeft(e, yrs)
WithinPool(e, yrs) == Burnedout(e) => Pulled(e, yrs) <= e.pool /\ Pulled(e, yrs) <= e.burnout
NeverMoreThanEarned(s) ==
  \A v \in DOMAIN s.matured \cup DOMAIN s.withdrawn :
     Get(s.matured, v) >= 0 /\
     Get(s.matured, v) + Get(s.withdrawn, v) <= (LET ch == IF v \in DOMAIN s.chunk THEN s.chunk[v] ELSE <<>>
                                                     RECURSIVE Tot(_) Tot(ks) == IF ks = {} THEN 0 ELSE LET k == CHOOSE x \in ks : TRUE IN ch[k] + Tot(ks \ {k})
                                                 IN Tot(DOMAIN ch))

(***************************************************************************)
(* Bounded model: two validators, two reward years of four ticks each, a    *)
(* cycle of two blocks, blocks one or two ticks apart, any signing pattern, *)
(* withdrawals; a node may lose its cached amount at any block (restart).   *)
(***************************************************************************)
CONSTANTS Vals, P1, P2, S1, S2, MaxH, Deviations
Powers == <<P1, P2>>
Shares == <<S1, S2>>

VARIABLES rs, hh, times, cached, pool
rvars == <<rs, hh, times, cached, pool>>
Closes == <<6, 12>>
Env(h, ts, votes) == [h |-> h, times |-> ts, cycle |-> 2, est |-> 2, window |-> 1, shares |-> Shares, closes |-> Closes, burnout |-> 2,
                      interval |-> 2, pool |-> pool, votes |-> votes, deleg |-> FALSE]
VoteSeqs == {q \in [1..Cardinality(Vals) -> BOOLEAN] : TRUE}
ValSeq == CHOOSE q \in [1..Cardinality(Vals) -> Vals] : \A i, j \in 1..Cardinality(Vals) : i # j => q[i] # q[j]
Votes(signs) == [i \in 1..Cardinality(Vals) |-> [v |-> ValSeq[i], p |-> Powers[i], signed |-> signs[i], known |-> TRUE]]

RInit == /\ rs = [years |-> [i \in 1..2 |-> [till |-> 0, dist |-> 0]], total |-> 0, chunk |-> <<>>, matured |-> <<>>, withdrawn |-> <<>>]
         /\ hh = 0 /\ times = <<>> /\ cached = -1 /\ pool = 40
(* the amount a node that computes now gets: the deviation measures the block speed up to the current block *)
Fresh(e, yrs) == IF "speedUpToNow" \in Deviations /\ e.h > e.cycle
                 THEN LET e2 == [e EXCEPT !.times = [i \in DOMAIN e.times |-> IF i = CycleEnd(e) THEN e.times[e.h] ELSE e.times[i]]] IN Amount(e2, yrs)
                 ELSE Amount(e, yrs)
Block(dt, signs, restart) ==
  /\ hh < MaxH /\ hh' = hh + 1
  /\ times' = Append(times, (IF hh = 0 THEN 0 ELSE times[hh]) + dt)
  /\ LET e == Env(hh + 1, times', Votes(signs))
         amt == IF cached >= 0 /\ ~restart /\ ~FirstInCycle(e) THEN cached ELSE IF Exhausted(e, rs.years) THEN -1 ELSE Fresh(e, rs.years)
     IN /\ cached' = amt
        /\ rs' = IF "roundUp" \in Deviations /\ ~Exhausted(e, rs.years)
                 THEN [DoBlock(rs, e) EXCEPT !.total = @ + 1, !.years = [@ EXCEPT ![IF Year(e) = 0 THEN 1 ELSE Year(e)].dist = @ + 1]]
                 ELSE DoBlock(rs, e)
        /\ pool' = pool
Withdraw(v, a) == /\ CanWithdraw(rs, v, a) /\ pool >= a /\ rs' = DoWithdraw(rs, v, a) /\ pool' = pool - a /\ UNCHANGED <<hh, times, cached>>
RNext == \/ \E dt \in {1, 2}, signs \in VoteSeqs, restart \in BOOLEAN : Block(dt, signs, restart)
         \/ \E v \in Vals, a \in {1, 2} : Withdraw(v, a)
RSpec == RInit /\ [][RNext]_rvars

(* what the running node uses is what a node computing from scratch gets *)
PropRestartIndependent ==
  [][hh' = hh + 1 => LET e == Env(hh', times', Votes([i \in 1..Cardinality(Vals) |-> TRUE]))
                     IN (cached' >= 0 => cached' = Amount(e, rs.years))]_rvars
InvEarned == NeverMoreThanEarned(rs)
PropBlockWithinPulled ==
  [][hh' = hh + 1 => rs'.total - rs.total <= (IF cached' >= 0 THEN cached' ELSE 0)]_rvars
=============================================================================
