------------------------------ MODULE Ons_Trace ------------------------------
(* Trace validation of the domain-name registry (C20).  Every line is the projection of   *)
(* all domain records and OLT balances of the real application after InitChain or after   *)
(* a block, with the block's accepted transactions (delivery order, fee charged), the     *)
(* price options in force and the parent relation of the names in play.  TLC re-computes  *)
(* the block by folding the accepted transactions with the Can*/Do* operators of module   *)
(* Ons: every accepted transaction must be allowed by its guard (owner-only changes,      *)
(* purchases that pay the asking or base price) and the resulting records - owner,        *)
(* beneficiary, expiry height, sale flag and price, activity, URI, set of sub-names - and *)
(* balances must equal the logged ones exactly.                                           *)
EXTENDS Ons, Json, SequencesExt

Trace == ndJsonDeserialize("trace.ndjson")

VARIABLES l, cur, nviol
tvars == <<st, hh, last, seen, l, cur, nviol>>
Ev == Trace[l]

Report(name, ok) ==
  IF ok THEN 0 ELSE IF PrintT(<<"PROPERTY-VIOLATED", name, "line", l, "trace", Ev.t, "h", Ev.h>>) THEN 1 ELSE 1

Eq1(f, g) == \A k \in DOMAIN f \cup DOMAIN g : Get(f, k) = Get(g, k)
EqDom(f, g, skip) == DOMAIN f \ skip = DOMAIN g \ skip /\ \A n \in DOMAIN f \ skip : f[n] = g[n]
Fields(d) == [owner |-> d.owner, benef |-> d.benef, created |-> d.created, lastUpd |-> d.lastUpd, exp |-> d.exp, active |-> d.active,
              sale |-> d.sale, price |-> d.price, uri |-> d.uri]
Norm(dom) == [n \in DOMAIN dom |-> Fields(dom[n])]
TEnv == [h |-> Ev.h, ver |-> Ev.h - 1, base |-> Ev.base, pb |-> Ev.pb, par |-> Ev.par, limit |-> TRUE, seen |-> DOMAIN st.dom]
PEnv == [TEnv EXCEPT !.limit = FALSE]      \* for the property-level invariants: all sub-names

RECURSIVE Fold(_, _, _, _)
Fold(s, txs, i, bad) ==
  IF i > Len(txs) THEN [s |-> s, bad |-> bad]
  ELSE LET x == txs[i]
           f == DoFee(s, x.payer, x.fee)
           e == TEnv
       IN
    CASE x.k = "DOM_CREATE" -> IF CanCreate(s, e, x) THEN Fold(DoCreate(f, e, x), txs, i + 1, bad) ELSE Fold(f, txs, i + 1, bad \cup {"create"})
      [] x.k = "DOM_UPDATE" -> IF CanUpdate(s, e, x) THEN Fold(DoUpdate(f, e, x), txs, i + 1, bad) ELSE Fold(f, txs, i + 1, bad \cup {"update"})
      [] x.k = "DOM_SELL" -> IF CanSale(s, e, x) THEN Fold(DoSale(f, e, x), txs, i + 1, bad) ELSE Fold(f, txs, i + 1, bad \cup {"sale"})
      [] x.k = "DOM_PURCHASE" -> IF CanPurchase(s, e, x) THEN Fold(DoPurchase(f, e, x), txs, i + 1, bad) ELSE Fold(f, txs, i + 1, bad \cup {"purchase"})
      [] x.k = "DOM_SEND" -> IF CanSend(s, e, x) THEN Fold(DoSend(f, e, x), txs, i + 1, bad) ELSE Fold(f, txs, i + 1, bad \cup {"send"})
      [] x.k = "DOM_RENEW" -> IF CanRenew(s, e, x) THEN Fold(DoRenew(f, e, x), txs, i + 1, bad) ELSE Fold(f, txs, i + 1, bad \cup {"renew"})
      [] x.k = "DOM_DELETE_SUB" -> IF CanDeleteSub(s, e, x) THEN Fold(DoDeleteSub(f, e, x), txs, i + 1, bad) ELSE Fold(f, txs, i + 1, bad \cup {"deletesub"})
      [] x.k = "SEND" -> Fold(DoPlainSend(f, x), txs, i + 1, bad)
      [] OTHER -> Fold(f, txs, i + 1, bad)

Logged(e) == [dom |-> Norm(e.s.dom), bal |-> e.s.bal]
Idle == last' = last /\ hh' = hh /\ seen' = seen

TraceInit == st = [dom |-> <<>>, bal |-> <<>>] /\ hh = 0 /\ last = 0 /\ seen = {} /\ l = 1 /\ cur = 0 /\ nviol = 0

TraceStart ==
  /\ l <= Len(Trace) /\ Ev.ev = "Init"
  /\ l' = l + 1 /\ cur' = Ev.t /\ Idle /\ st' = Logged(Ev) /\ nviol' = nviol

TraceBlock ==
  /\ l <= Len(Trace) /\ Ev.ev = "Block" /\ Ev.t = cur
  /\ l' = l + 1 /\ cur' = cur /\ Idle
  /\ LET f == Fold(st, Ev.txs, 1, {})
         c == f.s
         lg == Logged(Ev)
         known == Ev.other = <<>>
         clean == f.bad = {}                \* once a guard failed the re-computed records are not the reference any more
     IN /\ st' = lg
        /\ nviol' = nviol
             + Report("AcceptedCreateAllowed", "create" \notin f.bad)
             + Report("AcceptedUpdateByOwner", "update" \notin f.bad)
             + Report("AcceptedSaleByOwner", "sale" \notin f.bad)
             + Report("AcceptedPurchasePaysPrice", "purchase" \notin f.bad)
             + Report("AcceptedSendToLiveName", "send" \notin f.bad)
             + Report("AcceptedRenewByOwner", "renew" \notin f.bad)
             + Report("AcceptedDeleteSubByOwner", "deletesub" \notin f.bad)
             + Report("Records.exact", ~clean \/ EqDom(c.dom, lg.dom, ToSet(Ev.skip)))
             + Report("Balances.exact", ~clean \/ ~known \/ Eq1(c.bal, lg.bal))
             + Report("SubFollowsParent", SubFollowsParent(lg, PEnv) /\ SubHasParent(lg, PEnv))
             + Report("NonNegative", NonNegative(lg))

TraceNext == TraceStart \/ TraceBlock
TraceSpec == TraceInit /\ [][TraceNext]_tvars

TraceAccepted ==
  LET d == TLCGet("stats").diameter
      want == Len(Trace) + 1
  IN IF d = want THEN TRUE ELSE Print(<<"TRACE-REJECTED matched-states", d, "of", want>>, FALSE)
=============================================================================
