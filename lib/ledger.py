"""Shared pipeline of the ledger checks C02 (no value creation, no negative amounts) and
C03 (no unauthorised debit): Ledger.tla model-checked on its abstract machine (with the
deviation runs that show the properties are not vacuous), generated histories executed on the
real application, the committed state projected onto the specification's variables after
every block, and the resulting traces validated by TLC against Ledger_Trace (TLC evaluates
the properties on every pair of consecutive real states)."""
import json, os, re
import vlib

MC_CONSTS = dict(Accts={"a1", "a2"}, Pools={"pool"}, MaxAmt=2, MaxN=2, Deviations=set())
TRACE_CONSTS = dict(Accts=set(), Pools=set(), MaxAmt=0, MaxN=0, Deviations=set())
MC_INVS = ["InvNoCreation", "InvNoNegative", "InvNoUnauthorisedDebit"]

PROPS_OF = {"C02": {"NoCreation", "NoNegative"}, "C03": {"NoUnauthorisedDebit"}}


def vdrive(ctx, mode, *args, timeout=3000):
    p = ctx.run([os.path.join(ctx.bin, "vdrive"), mode] + [str(a) for a in args], timeout=timeout)
    return json.loads(p.stdout.strip().splitlines()[-1])


def model_check(ctx):
    r = ctx.tlc("Ledger", "mc.cfg", name="ledger-mc",
                cfg_text=vlib.cfg_text("LSpec", MC_CONSTS, MC_INVS, view="LView", constraint="StepBound"))
    # non-vacuity: each deviation must be caught by the property it is meant for
    for dev, inv in (("mint", "InvNoCreation"), ("debit", "InvNoUnauthorisedDebit")):
        d = ctx.tlc("Ledger", "dev.cfg", name="ledger-dev-" + dev, allow_violation=True,
                    cfg_text=vlib.cfg_text("LSpec", dict(MC_CONSTS, Deviations={dev}), MC_INVS, view="LView", constraint="StepBound"))
        if d["ok"] or ("Invariant %s is violated" % inv) not in d["text"]:
            raise vlib.ToolFailure("vacuity control failed: deviation %s not caught by %s" % (dev, inv))
    return r


def validate(ctx, tf, name):
    """TLC evaluates the ledger properties on the trace; returns (accepted, [(prop, line, trace, h)])"""
    tr = ctx.tlc("Ledger_Trace", "trace.cfg", workers=1, name=name, files=[(tf, "trace.ndjson")],
                 cfg_text=vlib.cfg_text("TraceSpec", TRACE_CONSTS, postcondition="TraceAccepted"), allow_violation=True)
    viol = [(m.group(1), int(m.group(2)), int(m.group(3)), int(m.group(4)))
            for m in re.finditer(r'<<"PROPERTY-VIOLATED", "(\w+)", "line", (\d+), "trace", (\d+), "h", (\d+)>>', tr["text"])]
    if not tr["ok"]:
        raise vlib.ToolFailure("Ledger_Trace did not consume the trace %s:\n%s" % (name, tr["text"][-2000:]))
    return viol


def attribute(meta, t, h):
    """which request is responsible: the adversarial request accepted in this block, else the most
    recent accepted adversarial request earlier in the same history (delayed effect), else none"""
    blocks = meta[t - 1]
    def accepted_hostile(b):
        return [x for x in (b["txs"] or []) if x["req"].get("class") and x.get("deliver") and x["deliver"]["code"] == 0]
    for delay, bi in enumerate(range(h - 1, -1, -1)):
        if bi >= len(blocks):
            continue
        hs = accepted_hostile(blocks[bi])
        if hs:
            x = hs[0]
            return {"path": x["path"], "kind": x["req"]["kind"], "class": x["req"]["class"], "delayed": "yes" if delay else "no"}
    return {"path": "-", "kind": "-", "class": "none", "delayed": "no"}


def run_family(ctx, prop, family, n, blocks, seed, samples):
    tf = os.path.join(ctx.tmp, "ledger-%s.ndjson" % family)
    rep = vdrive(ctx, "ledger", "--family", family, "--seed", seed, "--n", n, "--blocks", blocks, "--out", tf)
    viol = validate(ctx, tf, "trace-" + family)
    meta = json.load(open(tf + ".meta.json"))
    scs = json.load(open(tf + ".scenarios.json"))
    lines = None
    mine = PROPS_OF[prop]
    for (p, line, t, h) in viol:
        if p not in mine:
            continue
        sig = dict(attribute(meta, t, h), property_part=p)
        if lines is None:
            lines = open(tf).read().splitlines()
        e = json.loads(lines[line - 1])
        text = "%s violated at block %d of history %s by %s %s (%s path%s); bad=%s" % (
            p, h, scs[t - 1]["id"], sig["kind"], sig["class"], sig["path"], ", delayed effect" if sig["delayed"] == "yes" else "", e.get("bad"))
        ctx.violation(sig, {"engine": "ledger", "family": family, "scenario": scs[t - 1], "block": h, "trace_line": e}, text)
    if len(samples) < 4:
        with open(tf) as fh:
            l1 = json.loads(fh.readline())
            l2 = json.loads(fh.readline())
        samples.append({"family": family, "first_block_event": {k: l2[k] for k in ("h", "signed", "allow", "bad")}, "hold_entries": l2["hold"][:6]})
    return rep, tf


def selftest(ctx, tf):
    """binding: corrupt one projected balance upwards / an unsigned account downwards -> TLC must report it"""
    lines = open(tf).read().splitlines()
    for want, mut in (("NoCreation", +777), ("NoUnauthorisedDebit", -777)):
        done = False
        for i, ln in enumerate(lines):
            e = json.loads(ln)
            if e["ev"] != "Block":
                continue
            for ent in e["hold"]:
                if ent["cat"] == "bal" and ent["o"] in e["eoa"] and ent["o"] not in e["signed"] and ent["v"] > 1000:
                    ent["v"] += mut
                    done = True
                    break
            if done:
                bad = os.path.join(ctx.tmp, "ledger-corrupt.ndjson")
                open(bad, "w").write("\n".join(lines[:i] + [json.dumps(e)] + lines[i + 1:]) + "\n")
                v = validate(ctx, bad, "selftest-" + want)
                if not any(p == want and line == i + 1 for (p, line, t, h) in v):
                    raise vlib.ToolFailure("self-test: corrupted balance (%+d) not reported as %s" % (mut, want))
                break
        if not done:
            raise vlib.ToolFailure("self-test: no suitable line")
    ctx.notes.append("binding self-test: a balance raised by 777 is reported as NoCreation, lowered by 777 as NoUnauthorisedDebit")


FAMILIES = ["base", "stake", "deleg", "alleg", "eth", "eth5", "erc20", "gov", "ons", "olvm", "bid"]


def run(ctx, prop, replay):
    ctx.build("vworker", "vdrive")
    ctx.sany("Ledger", "Ledger_Trace")
    if replay:
        rp = json.load(open(replay))
        sf = os.path.join(ctx.tmp, "replay-scen.json")
        json.dump([rp["scenario"]], open(sf, "w"))
        tf = os.path.join(ctx.tmp, "replay.ndjson")
        vdrive(ctx, "ledger", "--scenario", sf, "--out", tf)
        viol = validate(ctx, tf, "replay")
        meta = json.load(open(tf + ".meta.json"))
        for (p, line, t, h) in viol:
            if p in PROPS_OF[prop]:
                sig = dict(attribute(meta, t, h), property_part=p)
                ctx.violation(sig, {"engine": "ledger", "scenario": rp["scenario"], "block": h}, "replayed: %s at block %d" % (p, h))
        ctx.cov.update(states=1, transitions=1, traces_validated_against_impl=1, samples=[replay])
        return
    mc = model_check(ctx)
    quick = ctx.quick()
    n, blocks = (50, 14) if quick else (600, 20)
    samples = []
    tot = dict(scenarios=0, blocks=0, txs=0, accepted=0, dead=0, events=0, nontrivial=0)
    kinds = {}
    first_tf = None
    for fam in FAMILIES:
        rep, tf = run_family(ctx, prop, fam, n, blocks, ctx.seed, samples)
        first_tf = first_tf or tf
        for k in tot:
            tot[k] += rep.get(k, 0)
        for k, v in rep["kind_stats"].items():
            kinds[k] = [kinds.get(k, [0, 0])[0] + v[0], kinds.get(k, [0, 0])[1] + v[1]]
        ctx.log("family %s: %d histories, %d blocks, %d requests (%d accepted), %d node deaths, unknown keys %s" % (
            fam, rep["scenarios"], rep["blocks"], rep["txs"], rep["accepted"], rep["dead"], rep.get("unknown_keys")))
        if rep.get("unknown_keys"):
            raise vlib.ToolFailure("projector does not decode keys %s (ledger would be incomplete)" % rep["unknown_keys"])
    selftest(ctx, first_tf)
    ctx.cov.update(states=mc["distinct"], transitions=mc["generated"], traces_validated_against_impl=tot["scenarios"],
                   evaluations=tot["blocks"], distinct_nontrivial=tot["nontrivial"],
                   rule="seeded random histories (<=3 requests per block, at most one adversarial request per block: negative/zero/over-balance/>2^63/2^64+1 amounts, unknown or other currency, foreign signer, low gas; honest path and direct delivery); one evaluation = one block whose pre/post ledger TLC compares; a history is non-trivial when at least one request was accepted",
                   requests=tot["txs"], accepted=tot["accepted"], node_deaths=tot["dead"], per_kind_accepted_rejected=kinds, samples=samples)
    ctx.assumptions += ["the projector (harness/vapp/project.go, ledger.go) is the refinement mapping and is trusted; it fails the run on any key it cannot decode",
                        "amounts are small-scale (OLT with 2 decimals) so that TLC's 32-bit integers can sum them",
                        "a history ends when the node dies (C18 decides deaths)"]
