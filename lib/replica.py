"""Shared pipeline of the differential checks C01 (replica determinism), C06 (failed
transactions are no-ops), C07 (CheckTx isolation) and C08 (crash-restart equivalence):
Replica.tla model-checked (invariants hold without deviations; each named deviation is caught),
executions of the real application that must agree produced by the vdrive modes, merged into
one trace and validated by TLC against Replica_Trace (Agreement / RestartInfo)."""
import json, os, re
import vlib
from ledger import vdrive

MC = dict(Nodes={"n1", "n2"}, MaxH=2, NTx=2, FailedTx={2}, Locals={"validator", "witness"}, Deviations=set())
INVS = ["Agreement", "ResultIsFunctionOfChain", "RestartInfo", "NothingBeforeCommit"]

MODE = {"C01": "replicas", "C06": "failed", "C07": "checks", "C08": "crash"}
DEVS = {"C01": ["local"], "C06": ["failed"], "C07": ["check"], "C08": ["early", "stale"]}
FAMILIES = ["base", "stake", "deleg", "alleg", "eth", "erc20", "gov", "ons", "olvm", "olvmfork", "bid"]


def model_check(ctx, prop):
    r = ctx.tlc("Replica", "mc.cfg", name="replica-mc", cfg_text=vlib.cfg_text("Spec", MC, INVS))
    for dev in DEVS[prop]:
        d = ctx.tlc("Replica", "dev.cfg", name="replica-dev-" + dev, allow_violation=True,
                    cfg_text=vlib.cfg_text("Spec", dict(MC, Deviations={dev}), INVS))
        if d["ok"] or "is violated" not in d["text"]:
            raise vlib.ToolFailure("vacuity control failed: deviation %s not caught" % dev)
    return r


def validate(ctx, tf, name):
    tr = ctx.tlc("Replica_Trace", "trace.cfg", workers=1, name=name, files=[(tf, "trace.ndjson")],
                 cfg_text="SPECIFICATION TraceSpec\nPOSTCONDITION TraceAccepted\nCHECK_DEADLOCK FALSE\n", allow_violation=True)
    if not tr["ok"]:
        raise vlib.ToolFailure("Replica_Trace did not consume the trace %s:\n%s" % (name, tr["text"][-2000:]))
    return [(m.group(1), int(m.group(2)), int(m.group(3)), int(m.group(4)))
            for m in re.finditer(r'<<\s*"PROPERTY-VIOLATED",\s*"([\w.]+)",\s*"line",\s*(\d+),\s*"trace",\s*(\d+),\s*"h",\s*(\d+)\s*>>', tr["text"])]


def twin_class(name):
    return re.sub(r"-\d+$", "", name)


def report(ctx, prop, mode, family, tf, viol):
    if not viol:
        return
    lines = open(tf).read().splitlines()
    scs = json.load(open(tf + ".scenarios.json"))
    meta = json.load(open(tf + ".meta.json"))
    seen = set()
    for (p, line, t, h) in viol:
        e = json.loads(lines[line - 1])
        key = (t, e["node"])
        if key in seen:
            continue  # first divergence of this twin only; later blocks differ as a consequence
        seen.add(key)
        sig = {"mode": mode, "twin": twin_class(e["node"]), "field": p}
        descr = ""
        m = meta[t - 1]
        if e["node"] in m["twins"]:
            descr = m["descr"][m["twins"].index(e["node"])]
        text = "%s: execution '%s' (%s) of history %s disagrees with the reference at block %d" % (p, e["node"], descr, scs[t - 1]["id"], h)
        ctx.violation(sig, {"engine": "replica", "mode": mode, "family": family, "scenario": scs[t - 1], "twin": e["node"], "twin_descr": descr, "block": h, "line": e}, text)


def selftest(ctx, tf):
    lines = open(tf).read().splitlines()
    idx = [i for i, ln in enumerate(lines) if '"ev":"Block"' in ln and '"node":"ref"' not in ln]
    if not idx:
        raise vlib.ToolFailure("self-test: no twin block event")
    i = idx[len(idx) // 2]
    e = json.loads(lines[i])
    e["res"]["hash"] = "00" + e["res"]["hash"][2:] if not e["res"]["hash"].startswith("00") else "11" + e["res"]["hash"][2:]
    bad = os.path.join(ctx.tmp, "replica-corrupt.ndjson")
    open(bad, "w").write("\n".join(lines[:i] + [json.dumps(e)] + lines[i + 1:]) + "\n")
    v = validate(ctx, bad, "selftest-hash")
    if not any(p == "Agreement.hash" and line == i + 1 for (p, line, t, h) in v):
        raise vlib.ToolFailure("self-test: a corrupted application hash was not reported")
    ctx.notes.append("binding self-test: one corrupted application hash in a twin's transcript is reported as Agreement.hash at that line")


def run(ctx, prop, replay, families=None, per_family=None):
    mode = MODE[prop]
    ctx.build("vworker", "vdrive")
    ctx.sany("Replica", "Replica_Trace")
    if replay:
        rp = json.load(open(replay))
        sf = os.path.join(ctx.tmp, "replay-scen.json")
        json.dump([rp["scenario"]], open(sf, "w"))
        tf = os.path.join(ctx.tmp, "replay.ndjson")
        vdrive(ctx, rp.get("mode", mode), "--scenario", sf, "--family", rp.get("family", "base"), "--seed", ctx.seed, "--out", tf)
        report(ctx, prop, mode, rp.get("family", "base"), tf, validate(ctx, tf, "replay"))
        ctx.cov.update(states=1, transitions=1, traces_validated_against_impl=1, samples=[replay])
        return
    mc = model_check(ctx, prop)
    quick = ctx.quick()
    n, blocks = per_family or ((30, 14) if quick else (400, 20))
    tot = dict(scenarios=0, blocks=0, txs=0, accepted=0, dead=0, events=0, nontrivial=0)
    extra = {}
    samples = []
    first = None
    for fam in (families or FAMILIES):
        tf = os.path.join(ctx.tmp, "%s-%s.ndjson" % (mode, fam))
        rep = vdrive(ctx, mode, "--family", fam, "--seed", ctx.seed, "--n", n, "--blocks", blocks, "--out", tf)
        first = first or tf
        viol = validate(ctx, tf, "trace-%s-%s" % (mode, fam))
        report(ctx, prop, mode, fam, tf, viol)
        for k in tot:
            tot[k] += rep.get(k, 0)
        for k, v in (rep.get("extra") or {}).items():
            extra[k] = extra.get(k, 0) + v
        samples += (rep.get("samples") or [])[:2]
        ctx.log("%s/%s: %d histories, %d reference blocks, %d trace events, %d deaths, extra %s, %d violation lines" % (
            mode, fam, rep["scenarios"], rep["blocks"], rep["events"], rep["dead"], rep.get("extra"), len(viol)))
        if rep["dead"]:
            ctx.notes.append("%d executions ended with a dead node in family %s: %s" % (rep["dead"], fam, rep.get("dead_at")))
    selftest(ctx, first)
    ctx.cov.update(states=mc["distinct"], transitions=mc["generated"], traces_validated_against_impl=tot["scenarios"],
                   evaluations=tot["events"], distinct_nontrivial=tot["nontrivial"], trace_events=tot["events"],
                   reference_blocks=tot["blocks"], requests=tot["txs"], accepted=tot["accepted"], samples=samples, **extra)
    ctx.assumptions += ["each execution runs in its own process built from /repo's working tree; Go map iteration order and wall-clock time differ per process",
                        "the harness plays Tendermint's part (block store, transaction index, handshake replay after a restart)"]
