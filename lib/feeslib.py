"""The fee pool (Fees.tla, Fees_Trace.tla): charged fees reach the pool, the pool is distributed by power at block end.
Value.* findings are violations of C02 (value in the pool or in a fee share that nobody paid); Conf.* findings are
differences between the code and the distribution rule of Fees.tla, which no listed property speaks about - they are
counted and returned as notes."""
import json, os, shutil, subprocess
import subsys, vlib
from ledger import vdrive, attribute

C = dict(Payers={"a1", "a2"}, Validators={"v1", "v2", "v3"}, Powers={0, 1, 2}, FeeAmts={1, 3}, InitBal=6, MinFee=1, MaxSteps=6, Deviations=set())
CBIG = dict(C, Powers={0, 1, 2, 5}, MaxSteps=8, InitBal=9)
INVS = ["InvConserved", "InvNonNegative"]
PROPS = ["PropSharesNeverFall", "PropByPower", "PropRemainderSmall", "PropThresholdStrict"]
DEVS = [("ceilShares", "Invariant InvNonNegative is violated"), ("shrinkingPool", "PropByPower")]
TRACE = dict(Payers=set(), Validators=set(), Powers=set(), FeeAmts=set(), InitBal=0, MinFee=0, MaxSteps=0, Deviations=set())
FAMILIES = ["base", "stake", "deleg", "valset", "alleg"]


def violations(ctx, tf, fam):
    viol = subsys.validate(ctx, "Fees", TRACE, tf, "trace-Fees-" + fam)
    meta = scs = lines = None
    seen = set()
    conf = {}
    for (p, line, t, h) in viol:
        if p.startswith("Conf."):
            conf[p] = conf.get(p, 0) + 1
            continue
        if (t, p) in seen:
            continue
        seen.add((t, p))
        if meta is None:
            meta = json.load(open(tf + ".meta.json"))
            scs = json.load(open(tf + ".scenarios.json"))
            lines = open(tf).read().splitlines()
        sig = dict(attribute(meta, t, h), property_part="Fees." + p)
        ctx.violation(sig, {"engine": "subsys", "spec": "Fees", "family": fam, "scenario": scs[t - 1], "block": h, "trace_line": json.loads(lines[line - 1])},
                      "Fees.%s violated at block %d of history %s" % (p, h, scs[t - 1]["id"]))
    return conf


def inductive(ctx):
    """Unbounded integers: Apalache discharges Init => IndInv and IndInv /\\ Next => IndInv' for Fees_Ind.tla (conservation and
    non-negativity of pool and shares for any balances, powers and minimal fee), and must fail with the shares rounded up."""
    d = os.path.join(ctx.tmp, "apalache-fees")
    os.makedirs(d, exist_ok=True)
    shutil.copy(os.path.join(vlib.SPECS, "Fees_Ind.tla"), d)
    res = {}
    for name, args, want in [("step", ["--cinit=CInitOk", "--init=IndInit", "--length=1"], "NoError"),
                             ("base", ["--cinit=CInitOk", "--init=Init", "--length=0"], "NoError"),
                             ("step-with-ceilShares", ["--cinit=CInitDev", "--init=IndInit", "--length=1"], "Error")]:
        try:
            p = subprocess.run(["apalache-mc", "check"] + args + ["--inv=IndInv", "--out-dir=" + os.path.join(d, "out"), "Fees_Ind.tla"],
                               cwd=d, capture_output=True, text=True, timeout=600)
        except subprocess.TimeoutExpired:
            raise vlib.ToolFailure("apalache timed out on Fees_Ind (%s)" % name)
        out = [ln for ln in p.stdout.splitlines() if "The outcome is:" in ln]
        got = out[0].split("The outcome is:")[1].split()[0] if out else "none"
        if got != want:
            raise vlib.ToolFailure("apalache on Fees_Ind (%s): outcome %s, expected %s\n%s" % (name, got, want, p.stdout[-1500:]))
        res[name] = got
    ctx.log("apalache Fees_Ind: %s" % res)
    return res


def run(ctx):
    ctx.sany("Fees", "Fees_Trace")
    ind = inductive(ctx)
    states = trans = 0
    for name, consts in [("fees", C)] + ([] if ctx.quick() else [("fees-big", CBIG)]):
        r = ctx.tlc("Fees", "mc.cfg", name="mc-" + name, extra=["-coverage", "1"], cfg_text=vlib.cfg_text("FSpec", consts, INVS, PROPS))
        zero = vlib.coverage_zero_actions(r["text"])
        if zero:
            raise vlib.ToolFailure("vacuous model %s: actions never taken: %s" % (name, zero))
        states += r["distinct"]
        trans += r["generated"]
    for dev, want in DEVS:
        d = ctx.tlc("Fees", "dev.cfg", name="fees-dev-" + dev, allow_violation=True, cfg_text=vlib.cfg_text("FSpec", dict(C, Deviations={dev}), INVS, PROPS))
        if d["ok"] or want not in d["text"]:
            raise vlib.ToolFailure("vacuity control failed: Fees deviation %s not caught (%s)" % (dev, want))
    n, blocks = (40, 16) if ctx.quick() else (400, 24)
    conf = {}
    tot = dict(scenarios=0, blocks=0, txs=0, accepted=0, dead=0)
    seen = dict(distributing=0, below_threshold=0, exact_inflow=0, unequal_powers=0, too_big=0)
    first = None
    for fam in FAMILIES:
        tf = os.path.join(ctx.tmp, "Fees-%s.ndjson" % fam)
        rep = vdrive(ctx, "subsys", "--family", fam, "--seed", ctx.seed, "--n", n, "--blocks", blocks, "--out", tf, "Fees")
        first = first or tf
        for k, v in violations(ctx, tf, fam).items():
            conf[k] = conf.get(k, 0) + v
        for k in tot:
            tot[k] += rep.get(k, 0)
        for ln in open(tf):
            e = json.loads(ln)
            d = sum(e["share1"].values()) - sum(e["share0"].values())
            seen["distributing" if d > 0 else "below_threshold"] += 1
            seen["exact_inflow"] += 0 if e["other"] else 1
            seen["too_big"] += 1 if e["big"] else 0
            if d > 0 and len({v["power"] for v in e["vals"].values()}) > 1:
                seen["unequal_powers"] += 1
        ctx.log("Fees/%s: %d histories, %d blocks, %d requests (%d accepted)" % (fam, rep["scenarios"], rep["blocks"], rep["txs"], rep["accepted"]))
    if not (seen["distributing"] and seen["below_threshold"] and seen["unequal_powers"] and seen["exact_inflow"]):
        raise vlib.ToolFailure("workload too poor for the fee pool: %s" % seen)
    # binding self-test: value appearing in the pool that nobody paid
    lines = open(first).read().splitlines()
    i = next(i for i, ln in enumerate(lines) if json.loads(ln)["h"] > 2)
    e = json.loads(lines[i])
    e["pool1"] += 5
    bad = os.path.join(ctx.tmp, "fees-corrupt.ndjson")
    open(bad, "w").write("\n".join(lines[:i] + [json.dumps(e)] + lines[i + 1:]) + "\n")
    v = subsys.validate(ctx, "Fees", TRACE, bad, "fees-selftest")
    if not any(p == "Value.PoolFedByFees" and line == i + 1 for (p, line, t, h) in v):
        raise vlib.ToolFailure("self-test: value added to the pool not reported as Value.PoolFedByFees (got %s)" % v[:5])
    # second self-test: one unit credited to another stake address than the rule says
    j = next((j for j, ln in enumerate(lines) if len([o for o, v in json.loads(ln)["share1"].items() if v > json.loads(ln)["share0"].get(o, 0)]) >= 2), None)
    if j is None:
        raise vlib.ToolFailure("self-test: no block crediting two stake addresses (workload too poor)")
    e = json.loads(lines[j])
    a, b = sorted(o for o, v in e["share1"].items() if v > e["share0"].get(o, 0))[:2]
    e["share1"][a] += 1
    e["share1"][b] -= 1
    open(bad, "w").write("\n".join(lines[:j] + [json.dumps(e)] + lines[j + 1:]) + "\n")
    v = subsys.validate(ctx, "Fees", TRACE, bad, "fees-selftest2")
    if not any(p == "Conf.DistributionByPower" and line == j + 1 for (p, line, t, h) in v) or any(p.startswith("Value.") and line == j + 1 for (p, line, t, h) in v):
        raise vlib.ToolFailure("self-test: a unit credited to the wrong stake address not reported as Conf.DistributionByPower only (got %s)" % v[:5])
    return dict(states=states, transitions=trans, histories=tot["scenarios"], blocks_recomputed=tot["blocks"], requests=tot["txs"], accepted=tot["accepted"],
                blocks_by_case=seen, conformance_notes=conf, inductive_invariant_apalache=ind,
                rule="every block of families %s: what reached the end-of-block routine (pool after + share increments) minus the pool before is at most (Value) and exactly (Conf) the fees charged by the accepted requests (gas used x price); shares are credited by floor(pool x power / total power) over the previous block's validator records when the pool exceeds the minimal fee; Value.* findings are violations of C02, Conf.* differences are notes" % ", ".join(FAMILIES))


def replay(ctx, path):
    ctx.build("vworker", "vdrive")
    ctx.sany("Fees", "Fees_Trace")
    rp = json.load(open(path))
    sf = os.path.join(ctx.tmp, "replay-scen.json")
    json.dump([rp["scenario"]], open(sf, "w"))
    tf = os.path.join(ctx.tmp, "replay.ndjson")
    vdrive(ctx, "subsys", "--scenario", sf, "--out", tf, "Fees")
    violations(ctx, tf, "replay")
    ctx.cov.update(states=1, transitions=1, traces_validated_against_impl=1, samples=[path])
