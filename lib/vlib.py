"""Shared plumbing for the /verif checks: scratch dirs, harness build, TLC runs,
evidence files, known findings, replay files, verdicts.

Exit codes (DESIGN.md 2.6): 0 property held on everything explored; 1 violation (printed as
`VIOLATION property=<id> replay=<path>`); 2 tooling failure / vacuous model / time-out (never a
violation)."""
import json, os, re, shutil, subprocess, sys, tempfile, time, hashlib

VERIF = os.path.dirname(os.path.dirname(os.path.abspath(__file__)))
REPO = os.environ.get("VERIF_REPO", "/repo")
SPECS = os.path.join(VERIF, "specs")
HARNESS = os.path.join(VERIF, "harness")
EVIDENCE = os.path.join(VERIF, "evidence")
REPLAYS = os.path.join(VERIF, "replays")
KNOWN = os.path.join(VERIF, "known_findings.json")

GOENV = dict(GOFLAGS="-mod=mod", GOPROXY="off", GOSUMDB="off", GOTOOLCHAIN="local")


class ToolFailure(Exception):
    pass


class Ctx:
    def __init__(self, prop, tier, seed, keep=False):
        self.prop, self.tier, self.seed, self.keep = prop, tier, seed, keep
        self.t0 = time.time()
        base = os.environ.get("VERIF_TMP") or tempfile.gettempdir()
        self.tmp = tempfile.mkdtemp(prefix="verif-%s-" % prop, dir=base)
        self.bin = os.path.join(self.tmp, "bin")
        os.makedirs(self.bin)
        self.violations = []      # (signature, replay_path, text)
        self.known_hits = []      # (finding, text)
        self.notes = []
        self.cov = {}             # coverage dict for the evidence file
        self.assumptions = []
        self.level = "model_checking"

    def quick(self):
        return self.tier == "quick"

    def log(self, *a):
        print("[%s %6.1fs]" % (self.prop, time.time() - self.t0), *a, flush=True)

    def cleanup(self):
        if not self.keep:
            shutil.rmtree(self.tmp, ignore_errors=True)

    # ---------------------------------------------------------------- harness
    def build(self, *cmds):
        """Builds harness commands from /repo's current working tree with the hooks on."""
        env = dict(os.environ, **GOENV)
        gosum = os.path.join(HARNESS, "go.sum")
        shutil.copyfile(os.path.join(REPO, "go.sum"), gosum)
        for c in cmds:
            out = os.path.join(self.bin, c)
            t = time.time()
            p = subprocess.run(["go", "build", "-tags", "verif", "-ldflags=-checklinkname=0", "-o", out, "./cmd/" + c],
                               cwd=HARNESS, env=env, stdout=subprocess.PIPE, stderr=subprocess.STDOUT, text=True)
            if p.returncode != 0:
                # the working tree does not compile with the hooks: not a verdict about the property
                raise ToolFailure("go build %s failed:\n%s" % (c, p.stdout[-4000:]))
            self.log("built %s in %.1fs" % (c, time.time() - t))
        return self.bin

    def run(self, argv, timeout=3600, cwd=None, stdin=None, env=None, ok_codes=(0,)):
        e = dict(os.environ, **GOENV)
        if env:
            e.update(env)
        try:
            p = subprocess.run(argv, cwd=cwd or self.tmp, env=e, input=stdin, stdout=subprocess.PIPE,
                               stderr=subprocess.PIPE, text=True, timeout=timeout)
        except subprocess.TimeoutExpired:
            raise ToolFailure("timeout: %s" % " ".join(argv[:4]))
        if p.returncode not in ok_codes:
            raise ToolFailure("%s exited %d\nstdout: %s\nstderr: %s" % (" ".join(argv[:4]), p.returncode, p.stdout[-3000:], p.stderr[-3000:]))
        return p

    # ---------------------------------------------------------------- TLC
    def tlc(self, module, cfg, workers=16, extra=(), timeout=1800, files=(), name=None, cfg_text=None,
            outfile=None, depth_first=False, allow_violation=False):
        """Runs TLC in a scratch copy.  Returns a dict with the parsed statistics and the
        output text (or the path of the output file when outfile is given)."""
        name = name or (module + "-" + os.path.splitext(os.path.basename(cfg))[0])
        d = os.path.join(self.tmp, "tlc-" + name)
        os.makedirs(d, exist_ok=True)
        for f in os.listdir(SPECS):
            if f.endswith(".tla"):
                shutil.copyfile(os.path.join(SPECS, f), os.path.join(d, f))
        if cfg_text is not None:
            with open(os.path.join(d, cfg), "w") as fh:
                fh.write(cfg_text)
        else:
            shutil.copyfile(os.path.join(SPECS, cfg), os.path.join(d, cfg))
        for src, dst in files:
            shutil.copyfile(src, os.path.join(d, dst))
        jopts = "-Xss512m -Djava.io.tmpdir=%s" % d
        if depth_first:
            jopts += " -Dtlc2.tool.queue.IStateQueue=StateDeque"
        env = dict(os.environ, JAVA_TOOL_OPTIONS=jopts)
        argv = ["tlc", "-workers", str(workers), "-metadir", os.path.join(d, "meta"), "-config", cfg] + list(extra) + [module + ".tla"]
        t = time.time()
        try:
            if outfile:
                with open(outfile, "w") as fh:
                    p = subprocess.run(argv, cwd=d, env=env, stdout=fh, stderr=subprocess.STDOUT, timeout=timeout)
                with open(outfile, "rb") as fh:
                    fh.seek(max(0, os.path.getsize(outfile) - 20000))
                    tail = fh.read().decode("utf-8", "replace")
                text = tail
            else:
                p = subprocess.run(argv, cwd=d, env=env, stdout=subprocess.PIPE, stderr=subprocess.STDOUT, text=True, timeout=timeout)
                text = p.stdout
        except subprocess.TimeoutExpired:
            subprocess.run(["pkill", "-f", "tlc2.TL[C].*" + d])
            raise ToolFailure("TLC timeout on %s" % name)
        res = {"name": name, "rc": p.returncode, "text": text, "wall": time.time() - t, "dir": d}
        m = re.search(r"(\d+) states generated, (\d+) distinct states found", text)
        if m:
            res["generated"], res["distinct"] = int(m.group(1)), int(m.group(2))
        m = re.search(r"depth of the complete state graph search is (\d+)", text)
        if m:
            res["depth"] = int(m.group(1))
        res["ok"] = p.returncode == 0 and "No error has been found" in text
        if not res["ok"] and not allow_violation:
            raise ToolFailure("TLC %s failed (rc=%d):\n%s" % (name, p.returncode, text[-3000:]))
        shutil.rmtree(os.path.join(d, "meta"), ignore_errors=True)
        self.log("tlc %s: %s generated / %s distinct in %.1fs" % (name, res.get("generated"), res.get("distinct"), res["wall"]))
        return res

    def sany(self, *modules):
        d = os.path.join(self.tmp, "sany")
        os.makedirs(d, exist_ok=True)
        for f in os.listdir(SPECS):
            if f.endswith(".tla"):
                shutil.copyfile(os.path.join(SPECS, f), os.path.join(d, f))
        for m in modules:
            p = subprocess.run(["tla-sany", m + ".tla"], cwd=d, stdout=subprocess.PIPE, stderr=subprocess.STDOUT, text=True,
                               env=dict(os.environ, JAVA_TOOL_OPTIONS="-Djava.io.tmpdir=%s" % d))
            if p.returncode != 0 or "error" in p.stdout.lower().replace("errors: 0", ""):
                if "Semantic errors" in p.stdout or "Parse Error" in p.stdout or p.returncode != 0:
                    raise ToolFailure("SANY rejects %s:\n%s" % (m, p.stdout[-2000:]))

    # ---------------------------------------------------------------- verdicts
    def violation(self, signature, replay_obj, text):
        """Records a real-code violation; matched against known_findings.json."""
        kf = load_known()
        for f in kf.get("findings", []):
            if f.get("property") == self.prop and sig_match(f.get("signature", {}), signature):
                self.known_hits.append((f, text))
                return
        os.makedirs(REPLAYS, exist_ok=True)
        h = hashlib.sha1(json.dumps(signature, sort_keys=True).encode()).hexdigest()[:10]
        path = os.path.join(REPLAYS, "%s-%s-%s.json" % (self.prop, self.seed, h))
        replay_obj = dict(replay_obj)
        replay_obj.update({"property": self.prop, "signature": signature, "what": text,
                           "repo_head": git_head(REPO), "verif_head": git_head(VERIF)})
        with open(path, "w") as fh:
            json.dump(replay_obj, fh, indent=1)
        if not any(pth == path for _, pth, _ in self.violations):
            self.violations.append((signature, path, text))

    def finish(self):
        ev = {
            "property_id": self.prop, "tier": self.tier, "seed": self.seed, "level": self.level,
            "coverage": self.cov, "assumptions": self.assumptions,
            "wall_s": round(time.time() - self.t0, 1), "violations": len(self.violations),
        }
        if self.notes:
            ev["coverage"]["notes"] = self.notes
        if self.known_hits:
            ev["coverage"]["known_findings_hit"] = sorted({json.dumps(f.get("signature"), sort_keys=True) for f, _ in self.known_hits})
        os.makedirs(EVIDENCE, exist_ok=True)
        with open(os.path.join(EVIDENCE, self.prop + ".json"), "w") as fh:
            json.dump(ev, fh, indent=1, sort_keys=True)
        seen = set()
        for f, text in self.known_hits:
            key = json.dumps(f.get("signature"), sort_keys=True)
            if key in seen:
                continue
            seen.add(key)
            print("KNOWN-FINDING: property=%s %s" % (self.prop, f.get("what", text)))
        for sig, path, text in self.violations:
            print("VIOLATION property=%s replay=%s" % (self.prop, path))
            print("  " + text)
        return 1 if self.violations else 0


def sig_match(pattern, sig):
    """every key of the stored pattern must be present and equal in the computed signature"""
    return all(sig.get(k) == v for k, v in pattern.items())


def load_known():
    try:
        with open(KNOWN) as fh:
            return json.load(fh)
    except FileNotFoundError:
        return {"findings": [], "fixed": []}


def git_head(d):
    try:
        return subprocess.run(["git", "-C", d, "rev-parse", "HEAD"], stdout=subprocess.PIPE, text=True).stdout.strip()
    except Exception:
        return ""


def cfg_text(spec, consts, invariants=(), properties=(), view=None, constraint=None, action_constraint=None,
             postcondition=None, deadlock=False):
    lines = ["SPECIFICATION " + spec, "CONSTANTS"]
    for k, v in consts.items():
        lines.append("  %s = %s" % (k, tla_val(v)))
    if view:
        lines.append("VIEW " + view)
    if constraint:
        lines.append("CONSTRAINT " + constraint)
    if action_constraint:
        lines.append("ACTION_CONSTRAINT " + action_constraint)
    if invariants:
        lines.append("INVARIANTS " + " ".join(invariants))
    if properties:
        lines.append("PROPERTIES " + " ".join(properties))
    if postcondition:
        lines.append("POSTCONDITION " + postcondition)
    lines.append("CHECK_DEADLOCK " + ("TRUE" if deadlock else "FALSE"))
    return "\n".join(lines) + "\n"


def tla_val(v):
    if isinstance(v, bool):
        return "TRUE" if v else "FALSE"
    if isinstance(v, int):
        return str(v)
    if isinstance(v, str):
        return '"%s"' % v
    if isinstance(v, (set, frozenset)):
        return "{" + ", ".join(tla_val(x) for x in sorted(v, key=str)) + "}"
    if isinstance(v, (list, tuple)):
        return "<<" + ", ".join(tla_val(x) for x in v) + ">>"
    raise ValueError(v)


def coverage_zero_actions(text):
    """parses `-coverage` output: returns the names of actions that were never taken"""
    zero = []
    for m in re.finditer(r"<(\w+) line \d+, col \d+ to line \d+, col \d+ of module (\w+)>: (\d+):(\d+)", text):
        if int(m.group(4)) == 0 and m.group(1) not in ("Init",):
            zero.append(m.group(1))
    return zero


def main(run_fn, prop):
    import argparse
    ap = argparse.ArgumentParser()
    ap.add_argument("--tier", default=os.environ.get("VERIF_TIER", "quick"), choices=["quick", "thorough"])
    ap.add_argument("--seed", type=int, default=int(os.environ.get("VERIF_SEED", "1")))
    ap.add_argument("--keep", action="store_true")
    ap.add_argument("--replay", default=None)
    a = ap.parse_args(sys.argv[2:])
    ctx = Ctx(prop, a.tier, a.seed, a.keep)
    try:
        run_fn(ctx, a.replay)
        rc = ctx.finish()
    except ToolFailure as e:
        print("TOOL-FAILURE property=%s: %s" % (prop, e), file=sys.stderr)
        print("TOOL-FAILURE property=%s (see stderr); no verdict" % prop)
        rc = 2
    finally:
        ctx.cleanup()
    sys.exit(rc)
