"""Shared pipeline of the subsystem checks (C10-C15, C17, C19, C20): the subsystem's TLA+
specification is model-checked on small constants; generated histories are executed on the
real application, projected after every block, and TLC re-computes every block with the
specification's own operators and compares (trace validation, print-and-continue)."""
import json, os, re
import vlib
from ledger import vdrive, attribute


def validate(ctx, spec, consts, tf, name):
    tr = ctx.tlc(spec + "_Trace", "trace.cfg", workers=1, name=name, files=[(tf, "trace.ndjson")],
                 cfg_text=vlib.cfg_text("TraceSpec", consts, postcondition="TraceAccepted"), allow_violation=True)
    if not tr["ok"]:
        raise vlib.ToolFailure("%s_Trace did not consume the trace %s:\n%s" % (spec, name, tr["text"][-2500:]))
    return [(m.group(1), int(m.group(2)), int(m.group(3)), int(m.group(4)))
            for m in re.finditer(r'<<\s*"PROPERTY-VIOLATED",\s*"([\w.]+)",\s*"line",\s*(\d+),\s*"trace",\s*(\d+),\s*"h",\s*(\d+)\s*>>', tr["text"])]


def run(ctx, prop, replay, spec, mc, families, trace_consts, corrupt, rule, n_blocks=None, extra_mc=(), classify=None, tally=None):
    """mc = (consts, invariants, properties, constraint, view) for the exhaustive run of <spec>.tla (SPECIFICATION <mc_spec>)."""
    ctx.build("vworker", "vdrive")
    ctx.sany(spec, spec + "_Trace")
    if replay:
        rp = json.load(open(replay))
        sf = os.path.join(ctx.tmp, "replay-scen.json")
        json.dump([rp["scenario"]], open(sf, "w"))
        tf = os.path.join(ctx.tmp, "replay.ndjson")
        vdrive(ctx, "subsys", "--scenario", sf, "--out", tf, spec)
        for (p, line, t, h) in validate(ctx, spec, trace_consts, tf, "replay"):
            ctx.violation({"property_part": p}, {"engine": "subsys", "spec": spec, "scenario": rp["scenario"], "block": h}, "replayed: %s at block %d" % (p, h))
        ctx.cov.update(states=1, transitions=1, traces_validated_against_impl=1, samples=[replay])
        return
    states = trans = 0
    for (mname, mspec, consts, invs, props, constraint, view) in [mc] + list(extra_mc):
        r = ctx.tlc(spec, "mc.cfg", name="mc-" + mname, extra=["-coverage", "1"],
                    cfg_text=vlib.cfg_text(mspec, consts, invs, props, view=view, constraint=constraint))
        zero = vlib.coverage_zero_actions(r["text"])
        if zero:
            raise vlib.ToolFailure("vacuous model %s: actions never taken: %s" % (mname, zero))
        states += r["distinct"]
        trans += r["generated"]
    quick = ctx.quick()
    n, blocks = n_blocks or ((100, 16) if quick else (1200, 24))
    tot = dict(scenarios=0, blocks=0, txs=0, accepted=0, dead=0, events=0, nontrivial=0)
    kinds = {}
    samples = []
    first = None
    confnotes = {}
    for fam in families:
        tf = os.path.join(ctx.tmp, "%s-%s.ndjson" % (spec, fam))
        rep = vdrive(ctx, "subsys", "--family", fam, "--seed", ctx.seed, "--n", n, "--blocks", blocks, "--out", tf, spec)
        first = first or tf
        viol = validate(ctx, spec, trace_consts, tf, "trace-%s-%s" % (spec, fam))
        meta = scs = lines = None
        seen = set()
        firstline = {}
        for (p, line, t, h) in viol:
            if p.startswith("Conf."):
                # a difference between the code and the specification that the listed property does not speak about
                confnotes[p] = confnotes.get(p, 0) + 1
                continue
            # only the first violating block of a history is judged: later blocks may differ as a consequence
            if firstline.setdefault(t, line) != line:
                continue
            if meta is None:
                meta = json.load(open(tf + ".meta.json"))
                scs = json.load(open(tf + ".scenarios.json"))
                lines = open(tf).read().splitlines()
            if (t, p) in seen:
                continue  # first occurrence per history and property part
            seen.add((t, p))
            sig = dict(attribute(meta, t, h), property_part=p)
            if classify:
                sig.update(classify(json.loads(lines[line - 1]), p) or {})
            blk = meta[t - 1][h - 1]["txs"] if h - 1 < len(meta[t - 1]) else []
            acc = ["%s%s" % (x["req"]["kind"], json.dumps(x["req"]["a"], sort_keys=True)) for x in (blk or []) if x.get("deliver") and x["deliver"]["code"] == 0]
            text = "%s violated at block %d of history %s; accepted in that block: %s" % (p, h, scs[t - 1]["id"], "; ".join(acc)[:400])
            ctx.violation(sig, {"engine": "subsys", "spec": spec, "family": fam, "scenario": scs[t - 1], "block": h, "trace_line": json.loads(lines[line - 1])}, text)
        if tally:
            tally(tf)
        for k in tot:
            tot[k] += rep.get(k, 0)
        for k, v in rep["kind_stats"].items():
            kinds[k] = [kinds.get(k, [0, 0])[0] + v[0], kinds.get(k, [0, 0])[1] + v[1]]
        samples += (rep.get("samples") or [])[:1]
        ctx.log("%s/%s: %d histories, %d blocks, %d requests (%d accepted), %d deaths, %d violation lines" % (
            spec, fam, rep["scenarios"], rep["blocks"], rep["txs"], rep["accepted"], rep["dead"], len(viol)))
    # binding self-test
    lines = open(first).read().splitlines()
    done = False
    for i, ln in enumerate(lines):
        e = json.loads(ln)
        want = corrupt(e)
        if want:
            bad = os.path.join(ctx.tmp, "corrupt.ndjson")
            open(bad, "w").write("\n".join(lines[:i] + [json.dumps(e)] + lines[i + 1:]) + "\n")
            v = validate(ctx, spec, trace_consts, bad, "selftest")
            if not any(p == want and line in (i + 1, i + 2) for (p, line, t, h) in v):
                raise vlib.ToolFailure("self-test: corrupted record not reported as %s (got %s)" % (want, v[:5]))
            ctx.notes.append("binding self-test: a corrupted projected record is reported as %s" % want)
            done = True
            break
    if not done:
        raise vlib.ToolFailure("self-test: no line suitable for corruption (workload too poor)")
    ctx.cov.update(states=states, transitions=trans, traces_validated_against_impl=tot["scenarios"], evaluations=tot["blocks"],
                   distinct_nontrivial=tot["nontrivial"], rule=rule, requests=tot["txs"], accepted=tot["accepted"], node_deaths=tot["dead"],
                   per_kind_accepted_rejected=kinds, samples=samples, conformance_notes=confnotes)
    if confnotes:
        ctx.notes.append("differences between the code and the specification that the listed property does not speak about (not violations): %s" % confnotes)
    ctx.assumptions += ["the projector and the event writer (harness/vapp) are the refinement mapping and are trusted; exercised by the corruption self-test",
                        "rejected transactions are not judged (safety-oriented modelling): only accepted ones must be allowed by the specification and have exactly its effect"]
