"""Bid application (external_apps/bid): shared by C02 (Value.* findings of Bid_Trace) and C20 (Name.* findings)."""
import json, os
import subsys
from ledger import vdrive, attribute

BID_TRACE = dict(Accts=set(), Amts=set(), MaxT=0, InitBal=0, Deviations=set())


def violations(ctx, tf, fam, prefix):
    """Validates a Bid trace; lines named <prefix>* are violations of the calling property, Conf.* lines are counted and
    returned (differences between the code and Bid.tla that no listed property speaks about), other prefixes belong to
    another property's check."""
    viol = subsys.validate(ctx, "Bid", BID_TRACE, tf, "trace-Bid-" + fam)
    meta = scs = lines = None
    seen = set()
    conf = {}
    for (p, line, t, h) in viol:
        if p.startswith("Conf."):
            conf[p] = conf.get(p, 0) + 1
            continue
        if not p.startswith(prefix) or (t, p) in seen:
            continue
        seen.add((t, p))
        if meta is None:
            meta = json.load(open(tf + ".meta.json"))
            scs = json.load(open(tf + ".scenarios.json"))
            lines = open(tf).read().splitlines()
        sig = dict(attribute(meta, t, h), property_part="Bid." + p)
        blk = meta[t - 1][h - 1]["txs"] if h - 1 < len(meta[t - 1]) else []
        acc = ["%s%s" % (x["req"]["kind"], json.dumps(x["req"]["a"], sort_keys=True)) for x in (blk or []) if x.get("deliver") and x["deliver"]["code"] == 0]
        ctx.violation(sig, {"engine": "subsys", "spec": "Bid", "family": fam, "scenario": scs[t - 1], "block": h, "trace_line": json.loads(lines[line - 1])},
                      "Bid.%s violated at block %d of history %s; accepted in that block: %s" % (p, h, scs[t - 1]["id"], "; ".join(acc)[:400]))
    return conf


def replay(ctx, path, prefix):
    ctx.build("vworker", "vdrive")
    ctx.sany("Bid", "Bid_Trace")
    rp = json.load(open(path))
    sf = os.path.join(ctx.tmp, "replay-scen.json")
    json.dump([rp["scenario"]], open(sf, "w"))
    tf = os.path.join(ctx.tmp, "replay.ndjson")
    vdrive(ctx, "subsys", "--scenario", sf, "--out", tf, "Bid")
    violations(ctx, tf, "replay", prefix)
    ctx.cov.update(states=1, transitions=1, traces_validated_against_impl=1, samples=[path])
