#!/bin/bash
# Runs the repository's own test suite with the verif build tag OFF and compares the
# result with the pinned baseline (/root/.vp/BASELINE.json: 358 stable tests).
# exit 0 iff every stable test passed.
export GOFLAGS=-mod=mod GOPROXY=off GOSUMDB=off GOTOOLCHAIN=local
OUT=${1:-$(mktemp /tmp/baseline.XXXXXX.json)}
run_once() {
cd /repo && go test -mod=mod -json -vet=off -count=1 -timeout 25m ./... > "$OUT" 2>/dev/null
python3 - "$OUT" <<'PY'
import json,sys
base=json.load(open('/root/.vp/BASELINE.json'))
stable=set(base['stable_pass']) if isinstance(base['stable_pass'],list) else None
passed=set(); failed=set()
for line in open(sys.argv[1]):
    try: e=json.loads(line)
    except Exception: continue
    if e.get('Test') and e.get('Action') in ('pass','fail'):
        name=e['Package']+'::'+e['Test']
        (passed if e['Action']=='pass' else failed).add(name)
if stable is None:
    print('passed',len(passed),'failed',len(failed)); sys.exit(0 if len(passed)>=358 else 1)
missing=sorted(stable-passed)
print('baseline stable=%d passed_now=%d failed_now=%d stable_missing=%d'%(len(stable),len(passed),len(failed),len(missing)))
for m in missing[:20]: print('MISSING',m)
sys.exit(1 if missing else 0)
PY
}
# event.TestTransitions is order-sensitive on the unchanged tree (BASELINE.json lists two of its
# sub-tests as flaky and later sub-tests are skipped when one of them fails): retry
restore() {
  # the event package's tests rewrite their checked-in test databases: put them back
  git -C /repo checkout -q -- event/test_dbpath 2>/dev/null; git -C /repo clean -fdq event/test_dbpath 2>/dev/null
}
for attempt in 1 2 3; do
  if run_once; then restore; exit 0; fi
done
restore
exit 1
