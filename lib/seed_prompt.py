import json,sys
pid, n, focus = sys.argv[1], sys.argv[2], sys.argv[3]
p=[json.loads(l) for l in open('/verif/properties.jsonl') if json.loads(l)['id']==pid][0]
print(f"""You are helping to evaluate a verification effort for the Go project Oneledger/protocol (a Tendermint ABCI blockchain node). Your job: craft ONE realistic, subtle change (a "seeded defect") to the source that BREAKS the semantic property below, while the code still compiles and the existing test suite still passes.

Work ONLY inside your own scratch git worktree: /tmp/seed/{n}  (a detached worktree of the repository). Never read or write /repo or /verif. Do not commit; leave your change as uncommitted edits, and also write the files listed at the end into /tmp/seed/{n}-out/.

Environment (no network): before any go command run
  export GOFLAGS=-mod=mod GOPROXY=off GOSUMDB=off GOTOOLCHAIN=local
NEVER use `git stash` (the stash is shared by all worktrees of the repository and other people work in sibling worktrees); to test without your change use `git diff > /tmp/seed/{n}-out/x.diff; git apply -R /tmp/seed/{n}-out/x.diff` and `git apply` to restore it. Build/test single packages (e.g. `go test -vet=off -count=1 ./action/... ./data/...`); `go build ./...` has pre-existing unrelated failures in chains/bitcoin/test and cmd/olfullnode - ignore those. Tests in ./event are order-flaky; ignore them. Linking test binaries that import go-ethereum may need `-ldflags=-checklinkname=0`.

THE PROPERTY ({p['id']}: {p['title']})
Statement: {p['statement']}
Quantified over: {p['quantifier']['text']}
Relevant code: {', '.join(p['anchors']['files'])}

FOCUS for your change (to keep it different from what others try): {focus}

REQUIREMENTS
1. The change must look like a plausible maintenance edit (refactor, optimisation, tidy-up, small feature) - not sabotage, no dead giveaways in comments. Keep it small (ideally < 40 changed lines).
2. It must need something SPECIFIC to manifest: a particular multi-step sequence of operations, an unusual but valid input, a particular ordering inside a block, a crash/restart at a particular point, a particular interleaving of CheckTx and DeliverTx, or two cooperating sites that each look fine alone. Ordinary single-operation use must still behave correctly, so that the existing tests keep passing.
3. The code must compile (`go build` of the touched packages and everything that imports them, in particular ./app/... ./action/... ./data/...) and the existing tests of the touched packages and their dependants must pass: run `go test -vet=off -count=1` on the relevant packages with and without your change and compare.
4. Write a demonstration: a new Go test file (name it zz_demo_test.go, in a suitable package of the worktree, test function name TestDemo{p['id']}) or a small program that FAILS with your change and PASSES without it, exercising real code of the repository (not a mock of your change). Check both directions yourself (git stash / git stash pop, or apply/reverse the diff).
5. Outputs in /tmp/seed/{n}-out/:
   - patch.diff : `git diff` of your change to existing files ONLY (without the demo test file)
   - zz_demo_test.go (or demo program) and demo.md saying in which package directory it goes and the exact command to run it
   - meta.json : {{"property":"{p['id']}","summary":"what was changed and why it breaks the property","needs":"what is specifically needed for it to manifest","files_changed":[...]}}
Finally leave the worktree with the patch applied and the demo file in place, and answer with a short summary (what, where, how it manifests, commands you ran and their results).""")
