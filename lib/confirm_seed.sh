#!/bin/bash
# usage: confirm_seed.sh <worktree> <outdir> <package> <run-pattern> [extra go test flags]
# Runs the seeded change's demonstration in the scratch worktree without and with patch.diff.
W=$1; O=$2; P=$3; R=$4; shift 4
export GOFLAGS=-mod=mod GOPROXY=off GOSUMDB=off GOTOOLCHAIN=local
cd "$W" || exit 2
git checkout -q -- . 
echo -n "unchanged: "; go test -mod=mod -vet=off -count=1 "$@" -run "$R" "$P" 2>&1 | grep -E "^(ok|FAIL|--- FAIL)" | head -2 | tr '\n' ' '; echo
git apply "$O/patch.diff" || exit 2
echo -n "patched:   "; go test -mod=mod -vet=off -count=1 "$@" -run "$R" "$P" 2>&1 | grep -E "^(ok|FAIL|--- FAIL)" | head -2 | tr '\n' ' '; echo
git checkout -q -- .
