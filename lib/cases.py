"""Shared pipeline of the case-product checks C04 (authentication) and C05 (at-most-once):
the specification is model-checked, the driver executes every case on the real application
(fresh replica per case, replaying the history prefix), TLC validates the case trace."""
import json, os, re
import vlib
from ledger import vdrive


def validate(ctx, spec, consts, tf, name):
    tr = ctx.tlc(spec + "_Trace", "trace.cfg", workers=1, name=name, files=[(tf, "trace.ndjson")],
                 cfg_text=vlib.cfg_text("TraceSpec", consts, postcondition="TraceAccepted"), allow_violation=True)
    if not tr["ok"]:
        raise vlib.ToolFailure("%s_Trace did not consume the trace %s:\n%s" % (spec, name, tr["text"][-2500:]))
    return [(m.group(1), int(m.group(2)), int(m.group(3)), int(m.group(4)))
            for m in re.finditer(r'<<\s*"PROPERTY-VIOLATED",\s*"([\w.]+)",\s*"line",\s*(\d+),\s*"trace",\s*(\d+),\s*"h",\s*(\d+)\s*>>', tr["text"])]
