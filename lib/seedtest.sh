#!/bin/bash
# usage: seedtest.sh <seeded-dir-with-patch.diff> <property-id> [tier]
# Applies a seeded change to /repo, runs the property's check, and undoes the change.
D=$1; P=$2; T=${3:-quick}
cd /repo || exit 2
if [ -n "$(git status --porcelain --untracked-files=no)" ]; then echo "/repo not clean"; exit 2; fi
git apply "$D/patch.diff" || { echo "patch does not apply"; exit 2; }
# the evidence file describes the unchanged tree: keep it over the run on the patched one
[ -f /verif/evidence/$P.json ] && cp /verif/evidence/$P.json /tmp/seedtest.$$.evidence
ls /verif/replays 2>/dev/null | sort > /tmp/seedtest.$$.replays
cd /verif && ./check "$P" --tier "$T" > /tmp/seedtest.$$.log 2>&1; rc=$?
[ -f /tmp/seedtest.$$.evidence ] && mv /tmp/seedtest.$$.evidence /verif/evidence/$P.json
git -C /repo checkout -- .
# replays written by this run describe the patched tree: print the first, keep none
for f in $(ls /verif/replays 2>/dev/null | sort | comm -13 /tmp/seedtest.$$.replays -); do rm -f /verif/replays/$f; done; rm -f /tmp/seedtest.$$.replays
grep -E "VIOLATION|KNOWN-FINDING|TOOL-FAILURE" /tmp/seedtest.$$.log | head -5
grep -A1 "^VIOLATION" /tmp/seedtest.$$.log | sed -n 2p | cut -c1-400
echo "rc=$rc"; rm -f /tmp/seedtest.$$.log
exit $rc
