#!/bin/bash
# usage: seedtest.sh <seeded-dir-with-patch.diff> <property-id> [tier]
# Applies a seeded change to /repo, runs the property's check, and undoes the change.
D=$1; P=$2; T=${3:-quick}
cd /repo || exit 2
if [ -n "$(git status --porcelain --untracked-files=no)" ]; then echo "/repo not clean"; exit 2; fi
git apply "$D/patch.diff" || { echo "patch does not apply"; exit 2; }
cd /verif && ./check "$P" --tier "$T" > /tmp/seedtest.$$.log 2>&1; rc=$?
git -C /repo checkout -- .
grep -E "VIOLATION|KNOWN-FINDING|TOOL-FAILURE" /tmp/seedtest.$$.log | head -5
grep -A1 "^VIOLATION" /tmp/seedtest.$$.log | sed -n 2p | cut -c1-400
echo "rc=$rc"; rm -f /tmp/seedtest.$$.log
exit $rc
